#!/usr/bin/env python3
"""dev tool: apply a textual mutation to /repo, run checks, restore.  usage: mut.py FILE OLD NEW Cxx [Cyy...]"""
import subprocess, sys
f, old, new = sys.argv[1:4]
props = sys.argv[4:]
p = "/repo/" + f
s = open(p).read()
assert s.count(old) >= 1, "pattern not found"
open(p, "w").write(s.replace(old, new, 1))
try:
    for c in props:
        r = subprocess.run(["/verif/check", c], capture_output=True, text=True)
        print(r.stdout[-1500:], r.stderr[-1500:])
finally:
    subprocess.run(["git", "-C", "/repo", "checkout", "--", f])
