#!/usr/bin/env python3
"""Applies every behaviour-preserving edit (/verif/seeded/refactors/<id>/patch.diff) to /repo in turn, runs all quick
checks, restores the tree.  Every check must stay silent; alarms are false alarms to be fixed in the rules.
usage: run_refactors.py [id ...]"""
import json, os, subprocess, sys
V = os.path.dirname(os.path.dirname(os.path.abspath(__file__)))
S = os.path.join(V, "seeded", "refactors")
claimed = [c["property_id"] for c in json.load(open(os.path.join(V, "MANIFEST.json")))["checks"]]
ids = sys.argv[1:] or sorted(d for d in os.listdir(S) if os.path.isdir(os.path.join(S, d)))
res_path = os.path.join(S, "results.json")
results = json.load(open(res_path)) if os.path.exists(res_path) else {}
assert subprocess.run(["git", "-C", "/repo", "status", "--porcelain"], capture_output=True, text=True).stdout.strip() == "", "/repo not clean"
for i in ids:
    patch = os.path.join(S, i, "patch.diff")
    r = subprocess.run(["git", "-C", "/repo", "apply", patch], capture_output=True, text=True)
    if r.returncode != 0:
        print(i, "PATCH DOES NOT APPLY", r.stderr[:200])
        results[i] = {"error": "patch does not apply"}
        continue
    try:
        fired = {}
        counts = {}
        for p in claimed:
            c = subprocess.run([os.path.join(V, "check"), p], capture_output=True, text=True)
            keys = [l.strip()[5:].strip() for l in c.stdout.split("\n") if l.strip().startswith("key:")]
            import re as _re
            mm = _re.search(r"(\d+) rule instances", c.stdout)
            counts[p] = int(mm.group(1)) if mm else -1
            if c.returncode != 0 and not keys:
                keys = ["(exit %d) %s" % (c.returncode, c.stdout[-200:])]
            if keys:
                fired[p] = keys
        results[i] = {"fired": fired, "instances": counts}
        print(i, "silent" if not fired else "FALSE ALARM: " + "; ".join("%s %s" % (p, [k.split(":", 1)[1][:110] for k in ks[:3]]) for p, ks in fired.items()))
    finally:
        subprocess.run(["git", "-C", "/repo", "checkout", "--", "."], check=True)
        subprocess.run(["git", "-C", "/repo", "clean", "-fdq", "--", "frost-core", "frost-rerandomized", "frost-ed25519", "frost-ed448", "frost-p256", "frost-ristretto255", "frost-secp256k1", "frost-secp256k1-tr"], check=False)
json.dump(results, open(res_path, "w"), indent=1, sort_keys=True)
with open(os.path.join(S, "INDEX.md"), "w") as f:
    f.write("# Behaviour-preserving edits: every check must stay silent\n\n| id | what (first line of the author's note) | result |\n|---|---|---|\n")
    for i in sorted(results):
        note = [l for l in open(os.path.join(S, i, "agent_README.md")).read().split("\n") if l.strip()][0].lstrip("# ")[:140].replace("|", "/")
        fired = results[i].get("fired", {})
        f.write("| %s | %s | %s |\n" % (i, note, "silent" if not fired else "alarm: " + ", ".join(fired)))
