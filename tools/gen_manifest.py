#!/usr/bin/env python3
"""Regenerates /verif/MANIFEST.json from the table below (claimed checks = rule modules that exist)."""
import json, os
V = os.path.dirname(os.path.dirname(os.path.abspath(__file__)))
props = [json.loads(l) for l in open(os.path.join(V, "properties.jsonl"))]

CLAIMS = {
 "C01": ("signer-set provenance, complete reductions and role wiring in sign/aggregate/share verification; the signer's share formula, the share check and the final verification equation agree as terms (code is its own oracle)",
         "Lagrange identity, field/group arithmetic and hashes are not decided", "§4 C01", "MIR term provenance + unified reduction/mapping views (loop or iterator form) + path-sensitive per-iteration transfer of accumulators (Lagrange kernel) + sibling term agreement in a polynomial normal form"),
 "C02": ("composition and order of every hash preimage and encoding against a table transcribed from RFC 9591 / BIP-340, RFC domain-separation tags per ciphersuite, ordered container and full-width identifier ordering; NOT value equality with an independent implementation",
         "RFC transcription table is trusted; numeric values are not decided", "§4 C02", "byte-sequence terms and digest normal form (algorithm, ordered preimage parts) compared with an RFC table; path-sensitive double-and-add kernel for identifiers"),
 "C03": ("the three count refusals at full integer width and the polynomial-size wiring hold on every path (edge separation on the CFG)",
         "cryptographic clauses (unforgeability below t) not decided", "§4 C03", "CFG edge-separation (must-pass-through) + operand provenance"),
 "C04": ("verify-before-release on every path, detect_cheater never Ok, blame wiring and scan shape",
         "algebraic meaning of a failing share check not decided", "§4 C04", "CFG edge-separation + always-Err summary + loop-shape rule"),
 "C05": ("own-commitment refusals, identity-commitment refusal as a union of mechanisms, H1/H2 preimage coverage of every bound field",
         "rejection of substituted inputs needs collision resistance; not decided", "§4 C05", "CFG edge-separation + may-dependence coverage of hash preimages"),
 "C06": ("parameter refusals, verify-before-KeyPackage, share check reads share/identifier/every coefficient, output wiring of split",
         "polynomial identities not decided", "§4 C06", "CFG edge-separation + term provenance + reduction rules"),
 "C07": ("narrow: wiring of dkg::part3 (all contributions, Y=G*s, copies) and Taproot post-processing", "agreement between participants not decided", "§4 C07", "term provenance + reduction rules"),
 "C08": ("part2/part3 refusals, per-sender check dominates use in the same iteration, culprit wiring, proof challenge binding",
         "soundness of the Schnorr proof not decided", "§4 C08", "CFG edge-separation, per-element loop dominance, width rule"),
 "C09": ("narrow: acceptance predicate of a round-two share reads (own id, share[l], commitment[l]); public package from the checked inputs only", "quantifier over delivery histories is not decided (model-checking question)", "§4 C09", "term provenance"),
 "C10": ("co-dependence of signing share / verifying share in every returned KeyPackage, group key copied, refusals, zero-constant verification before add",
         "behaviour of mixed old/new signer sets not decided", "§4 C10", "term co-dependence (linked atoms) + CFG edge-separation"),
 "C11": ("three refusals, |H|-1 draws, complete sums, last value formula, part3 wiring", "interpolation arithmetic not decided", "§4 C11", "CFG edge-separation + term agreement"),
 "C12": ("decoder canonicity table + guards, length/version/suite-id/zero checks, constructor confinement, writer/reader field agreement",
         "dependency decoders are trusted per audited table pinned to Cargo.lock versions", "§4 C12", "impl tables read from MIR + audited dependency table"),
 "C14": ("every panic site reachable in workspace code is in a reviewed table and its guard obligation holds", "dependencies assumed not to panic except through listed APIs", "§4 C14", "panic-effect inventory over MIR (Assert terminators, panicking APIs) with normalised panic kinds, generic discharges and guard obligations re-checked on the CFG"),
 "C15": ("32 rng bytes per nonce from the caller's rng, two draws per pair, both hashed with the share in RFC order, per-pair draws in the loop, commitments = G*nonce", "statistical claims not decided", "§4 C15", "draw-site discipline + byte-sequence terms"),
 "C16": ("no entropy source other than the caller's rng; every secret output depends on it; per-item draws are not hoisted; distinct roles use distinct draws", "statistical independence not decided", "§4 C16", "who-may-call rule on entropy sources + draw summaries (count of primitive draws, as a term over loop multiplicities, through all forwarding calls) + may-dependence"),
 "C17": ("randomizer depends on seed and every commitment; consistent shifting of all package components; delegation to the core sign/aggregate", "verification under the randomized key only: not decided", "§4 C17", "term provenance + co-dependence + reduction rules"),
 "C18": ("parity/tweak plumbing agrees across sign, share check, verify and key types; x-only codec", "acceptance by an independent BIP-340 verifier not decided", "§4 C18", "sibling term agreement under a parity predicate"),
 "C19": ("empty refusal, per-item blinder, all items, lock-step terms and matching chain order, acceptance test", "2^-128 bound not decided", "§4 C19", "CFG edge-separation + draw-in-loop + term agreement"),
 "C20": ("every secret field is wiped by Zeroize and by its owner's Drop; no secret flows into Debug output", "optimiser eliding plain zero stores is residual risk", "§4 C20", "impl tables from MIR (zeroize/drop reach sets) + no-flow into fmt sinks"),
}
NA = {
 "C13": "single clause is byte-for-byte equality of outputs across two executions (decode-and-continue vs uninterrupted): a runtime value comparison with no structural necessary condition beyond codec pairing, which C12 already decides; see DESIGN §7",
}
base = json.load(open("/root/.vp/BASELINE.json")) if os.path.exists("/root/.vp/BASELINE.json") else {}
checks = []
na = []
for p in props:
    pid = p["id"]
    mod = os.path.join(V, "sa", "rules", pid.lower() + ".py")
    if pid in CLAIMS and os.path.exists(mod):
        dec, assume, ref, tech = CLAIMS[pid]
        checks.append({
            "property_id": pid,
            "quick_cmd": "./check %s --tier quick" % pid,
            "thorough_cmd": "./check %s --tier thorough" % pid,
            "evidence_file": "/verif/evidence/%s.json" % pid,
            "replay_cmd_template": "./check %s --explain {path}" % pid,
            "engine": "frost-sa",
            "level_claimed": {"category": "other",
                              "text": "Static analysis of the type-checked program (MIR with resolved callees dumped by a rustc_private driver from /repo's current tree). Decides the structural clauses of the property for all inputs at once: " + dec + ". It does not execute frost code and does not decide the remaining (numeric / cryptographic) clauses.",
                              "design_ref": "DESIGN.md " + ref},
            "level_note": "Trusted base: rustc nightly MIR is faithful to the source; dependencies behave as documented; reviewed instance tables in /verif/sa/rules. " + assume + ".",
            "technique": "static analysis: " + tech,
        })
    else:
        na.append({"property_id": pid, "reason": NA.get(pid, "check not built yet in this round (DESIGN.md §9 build order); not claimed")})
m = {
 "version": 1,
 "setup_cmd": "./setup.sh",
 "hooks": {"guard": "none", "enable": "no hooks: the analysis reads /repo's source through a compiler driver (RUSTC_WORKSPACE_WRAPPER under cargo +nightly check); nothing in /repo is instrumented",
           "baseline_off_cmd": "cd /repo && (cargo nextest run --workspace --no-fail-fast --offline || cargo test --workspace --no-fail-fast --offline)",
           "source_commits": [], "add_only": True},
 "engines": [{"name": "frost-sa", "path": "/verif/check", "serves_properties": [c["property_id"] for c in checks],
              "kind_free_text": "rustc_private MIR fact extractor (driver/) + Python rule engines over the facts (sa/): compositional CFG edge separation (through helpers, closures, tail values), operand-provenance terms with use-site-sensitive updates, form-independent views of reductions/mappings/sequences/digests, path-sensitive reaching-definition terms along the acyclic paths of loop bodies and closures (a dataflow pass: nothing is executed, no solver), MIR-level expansion of private helpers, panic inventory, draw summaries, impl tables, term agreement in algebraic normal forms"}],
 "checks": checks,
 "notes": "All checks are static: they rebuild facts from /repo's working tree (cached by tree hash) and never run frost code. known_findings.json lists genuine defects (open/fixed).",
 "not_applicable": na,
}
json.dump(m, open(os.path.join(V, "MANIFEST.json"), "w"), indent=1)
print("claimed", [c["property_id"] for c in checks], "n/a", [n["property_id"] for n in na])
