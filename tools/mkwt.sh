#!/bin/sh
# usage: mkwt.sh <id>   -> creates /tmp/wt-<id> as a git worktree of /repo HEAD with a warm target dir
set -e
d=/tmp/wt-$1
git -C /repo worktree remove --force $d 2>/dev/null || true
rm -rf $d
git -C /repo worktree add -q --detach $d HEAD
cp -r /repo/target $d/target
echo $d
