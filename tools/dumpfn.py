import sys; sys.path.insert(0,'/verif')
from sa import facts, mir, terms
crates,th,_=facts.load()
P=mir.Program(crates)
f=P.fns[sys.argv[1]]
sel=set(int(x) for x in sys.argv[2:]) if len(sys.argv)>2 else None
def pl(p):
    s='_%d'%p['l']
    for e in p['p']:
        if e=='*': s='(*%s)'%s
        elif 'f' in e: s+='.'+str(e.get('n',e['f']))
        elif 'downcast' in e: s='(%s as %s)'%(s,e['downcast'])
        else: s+='[?]'
    return s
def op(o):
    if 'copy' in o: return pl(o['copy'])
    if 'move' in o: return 'move '+pl(o['move'])
    c=o.get('const',{})
    if 'fn' in c: return 'fn '+terms.short(c['fn']['path'])
    return 'const '+str(c.get('c'))
def rv(r):
    k=r['k']
    if k=='use': return op(r['op'])
    if k=='ref': return '&'+pl(r['place'])
    if k=='bin': return '%s(%s, %s)'%(r['op'],op(r['a']),op(r['b']))
    if k=='un': return '%s(%s)'%(r['op'],op(r['a']))
    if k=='cast': return '%s as %s'%(op(r['op']),r['to'])
    if k=='discr': return 'discr(%s)'%pl(r['place'])
    if k=='agg': return '%s::%s{%s}'%(terms.short(r.get('adt') or r['agg']),r.get('variant'),', '.join(op(x) for x in r['ops']))
    return k+':'+r.get('dbg','')[:50]
for b in f.blocks:
    if sel and b.i not in sel: continue
    print('bb%d%s:'%(b.i,' (cleanup)' if b.cleanup else ''))
    for s in b.stmts:
        if s['k']=='assign': print('    %s = %s'%(pl(s['place']),rv(s['rv'])))
        else: print('    ',s['k'])
    t=b.term
    if t['k']=='call':
        ci=mir.callee_of(t)
        print('    %s = call %s(%s) -> bb%s  [line %d]'%(pl(t['dest']),terms.short(ci['path']) if ci else '?',', '.join(op(a) for a in t['args']),t['target'],t['span']['line']))
    elif t['k']=='switch': print('    switch %s -> %s else bb%d'%(op(t['discr']),t['targets'],t['otherwise']))
    elif t['k']=='drop': print('    drop %s -> bb%d'%(pl(t['place']),t['target']))
    elif t['k']=='assert': print('    assert(%s==%s, %s) -> bb%d'%(op(t['cond']),t['expected'],t['kind'],t['target']))
    else: print('    ',t['k'],t.get('target',''))
