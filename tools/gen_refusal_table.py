#!/usr/bin/env python3
"""Prints the current refusal inventory of every function listed in sa/rules/refusal_table.py next to the reviewed one
(developer tool: review the differences by hand before editing the table; the check never writes the table)."""
import sys; sys.path.insert(0, '/verif')
from sa import facts, mir
from sa.lib import err_inventory
from sa.rules.refusal_table import TABLE
crates, th, _ = facts.load()
P = mir.Program(crates)
for key, (exp, props) in TABLE.items():
    f = P.fns.get(key)
    if f is None:
        print("MISSING", key)
        continue
    got = err_inventory(P, f, TABLE.keys())
    if got != exp:
        print(key)
        print("   reviewed:", dict(sorted(exp.items())))
        print("   current: ", dict(sorted(got.items())))
