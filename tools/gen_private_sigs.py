#!/usr/bin/env python3
"""dev tool: freezes the signatures of the *private* workspace functions that rules name (vocabulary of the rule modules) into
sa/rules/private_sigs.json.  facts.load uses the table to recognise such a function after a rename (same module / impl, same
signature, exactly one candidate that today's tree does not have).  Run on the clean pinned tree only."""
import json, os, sys
V = os.path.dirname(os.path.dirname(os.path.abspath(__file__)))
sys.path.insert(0, V)
from sa import facts, inline
facts.PRIVATE_SIGS = {}
cr, th, c = facts.load()
voc = inline.vocabulary()
out = {}
for c, j in cr.items():
    for f in j["fns"]:
        if f.get("kind") in ("Fn", "AssocFn") and f.get("vis") != "Public" and not f.get("reachable") and f["name"] in voc \
                and f.get("blocks") and not f["key"].startswith("<"):
            out[f["key"]] = {"crate": c, "inputs": f["inputs"], "output": f["output"]}
json.dump(out, open(os.path.join(V, "sa", "rules", "private_sigs.json"), "w"), indent=1, sort_keys=True)
print(len(out), "private functions frozen")
