import sys; sys.path.insert(0,'/verif')
from sa import facts, mir, terms, guards
crates,th,_=facts.load()
P=mir.Program(crates)
import sys
key=sys.argv[1]
f=P.fns[key]
cx=terms.TermCx(P,f)
for e,fact in guards.branch_facts(P,f,cx):
    def ff(x):
        return terms.fmt(x) if isinstance(x,tuple) else x
    print(e, fact[0], [ff(x) for x in fact[1:]])
print('ret', [(b,k) for b,k,_ in guards.ret_writes(f)])
