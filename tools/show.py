import sys; sys.path.insert(0,'/verif')
from sa import facts, mir, terms, guards
crates,th,_=facts.load()
P=mir.Program(crates)
for key in sys.argv[1:]:
    f=P.fns[key]
    print("==",key)
    cx=terms.TermCx(P,f)
    seen=set()
    for e,fact in guards.branch_facts(P,f,cx):
        def ff(x):
            return terms.fmt(x)[:230] if isinstance(x,tuple) else x
        if fact[0]=='variant':
            k=(e[0],e[1],e[2])
            if k in seen: continue
            seen.add(k)
        print(e, fact[0], [ff(x) for x in fact[1:]])
    print('ret', [(b,k) for b,k,_ in guards.ret_writes(f)])
