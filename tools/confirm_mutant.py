#!/usr/bin/env python3
"""Confirms a sub-agent mutant in its scratch worktree and, if confirmed, files it under /verif/seeded/<id>/.
usage: confirm_mutant.py <worktree> <n> <property> <seeded-id>
Steps: clean tree; apply patch; build; full existing suite must pass (565); demo must FAIL; revert; demo must PASS."""
import json, os, re, shutil, subprocess, sys
wt, n, prop, sid = sys.argv[1:5]
md = os.path.join(wt, "MUTANTS", n)
readme = open(os.path.join(md, "README.md")).read()
m = re.search(r"(frost-[a-z0-9-]+)/tests/(mutant_demo\w*\.rs)", readme)
crate, demo = (m.group(1), m.group(2)) if m else (None, None)
if len(sys.argv) > 5:
    crate = sys.argv[5]
    demo = demo or "mutant_demo_%s.rs" % n
assert crate, "cannot find demo crate in README"
def run(cmd, **kw):
    return subprocess.run(cmd, cwd=wt, capture_output=True, text=True, **kw)
run(["git", "checkout", "--", "."])
for c in os.listdir(wt):
    p = os.path.join(wt, c, "tests")
    if os.path.isdir(p):
        for f in os.listdir(p):
            if f.startswith("mutant_demo"):
                os.remove(os.path.join(p, f))
log = {}
r = run(["git", "apply", os.path.join(md, "patch.diff")])
assert r.returncode == 0, "patch does not apply: " + r.stderr
r = run(["cargo", "nextest", "run", "--workspace", "--no-fail-fast", "--offline"])
tail = (r.stdout + r.stderr)[-600:]
ms = re.search(r"(\d+) tests run: (\d+) passed", r.stdout + r.stderr)
log["suite_with_mutant"] = ms.group(0) if ms else tail
ok_suite = bool(ms) and ms.group(1) == "565" and ms.group(2) == "565"
dst = os.path.join(wt, crate, "tests", demo)
shutil.copy(os.path.join(md, "demo.rs"), dst)
tname = demo[:-3]
r = run(["cargo", "test", "--offline", "-p", crate, "--test", tname])
log["demo_with_mutant"] = "FAILED" if r.returncode != 0 else "passed"
fails_with = r.returncode != 0 and ("test result: FAILED" in r.stdout or "panicked" in r.stdout + r.stderr)
compile_err = "error[E" in r.stderr or "could not compile" in r.stderr
run(["git", "apply", "-R", os.path.join(md, "patch.diff")])
r2 = run(["cargo", "test", "--offline", "-p", crate, "--test", tname])
log["demo_without_mutant"] = "passed" if r2.returncode == 0 else "FAILED"
passes_without = r2.returncode == 0
os.remove(dst)
run(["git", "checkout", "--", "."])
print(json.dumps(log), "suite_ok=%s demo_fails_with=%s (compile_err=%s) demo_passes_without=%s" % (ok_suite, fails_with, compile_err, passes_without))
if ok_suite and fails_with and not compile_err and passes_without:
    out = os.path.join("/verif/seeded", sid)
    os.makedirs(out, exist_ok=True)
    shutil.copy(os.path.join(md, "patch.diff"), os.path.join(out, "patch.diff"))
    shutil.copy(os.path.join(md, "demo.rs"), os.path.join(out, "demo.rs"))
    shutil.copy(os.path.join(md, "README.md"), os.path.join(out, "agent_README.md"))
    title = [l for l in readme.split("\n") if l.strip()][0].lstrip("# ").strip()
    meta = {"property": prop, "summary": title[:160], "demo_crate": crate, "demo_file": "%s/tests/%s" % (crate, demo),
            "needs_to_manifest": "see agent_README.md", "written_by": "independent sub-agent given only the property text and a scratch worktree",
            "confirmed": {"how": "tools/confirm_mutant.py in the agent's scratch worktree (git worktree of /repo HEAD)",
                          "existing_suite_with_mutant": log["suite_with_mutant"], "demo_with_mutant": log["demo_with_mutant"],
                          "demo_without_mutant": log["demo_without_mutant"],
                          "commands": ["git apply patch.diff", "cargo nextest run --workspace --no-fail-fast --offline",
                                       "cargo test --offline -p %s --test %s" % (crate, tname), "git apply -R patch.diff",
                                       "cargo test --offline -p %s --test %s" % (crate, tname)]}}
    json.dump(meta, open(os.path.join(out, "meta.json"), "w"), indent=1)
    print("KEPT as", out)
else:
    print("NOT KEPT")
