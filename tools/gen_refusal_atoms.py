#!/usr/bin/env python3
"""dev tool: prints the ATOMS table (number of distinct atomic refusal conditions per variant of every function listed in
sa/rules/refusal_table.py) computed on the clean pinned tree, as Python source to paste into refusal_table.py."""
import sys; sys.path.insert(0, '/verif')
from sa import facts, mir
from sa.lib import err_atoms
import importlib
rt = importlib.import_module("sa.rules.refusal_table")
crates, th, _ = facts.load()
P = mir.Program(crates)
print("ATOMS = {")
for key in rt.TABLE:
    f = P.fns.get(key)
    if f is None:
        continue
    at = {k: len(a) for k, a in sorted(err_atoms(P, f, rt.TABLE.keys()).items())}
    if at:
        print("    %r: %r," % (key, at))
print("}")
