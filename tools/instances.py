#!/usr/bin/env python3
"""Prints the rule-instance keys a check evaluates on /repo's current tree (developer tool for the vacuity audit:
diff the output on the clean tree and on an edited tree).  usage: instances.py Cxx"""
import importlib, os, sys
sys.path.insert(0, os.path.dirname(os.path.dirname(os.path.abspath(__file__))))
from sa import facts, mir, report
prop = sys.argv[1]
mod = importlib.import_module("sa.rules." + prop.lower())
crates, tree, cached = facts.load("default")
ctx = report.Ctx(prop, "quick", mir.Program(crates), tree, 0)
mod.run(ctx)
for i in ctx.instances:
    print("%s:%s:%s %s" % (i["rule"], i["where"], i["what"], i["verdict"]))
