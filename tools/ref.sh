#!/bin/sh
# usage: ref.sh apply <id> | ref.sh undo
if [ "$1" = apply ]; then git -C /repo apply /verif/seeded/refactors/$2/patch.diff && echo applied $2; else git -C /repo checkout -- . && echo reverted; fi
