#!/bin/sh
# Builds the fact-extraction driver (rustc_private, nightly, zero cargo deps). Offline.
set -e
cd "$(dirname "$0")/driver"
CARGO_NET_OFFLINE=true cargo +nightly build --release --offline
