//! Compile-fail witnesses (engine I): the visibility half of the ownership arguments of C12 and C20.
//! Each witness has an error code and a compiling twin that differs only by the offending line, so a
//! witness whose path is merely wrong cannot pass.  Run with `cargo +nightly test --doc --offline`.

/// An `Identifier` cannot be built around its zero check from outside the crate (private tuple field).
/// ```compile_fail,E0423
/// use frost_core::{Field, Group, Ciphersuite};
/// type C = frost_ed25519::Ed25519Sha512;
/// let zero = <<<C as Ciphersuite>::Group as Group>::Field as Field>::zero();
/// let id = frost_core::Identifier::<C>(frost_core::serialization::SerializableScalar::<C>(zero));
/// ```
/// twin (compiles): the checked constructor is the only way in.
/// ```
/// type C = frost_ed25519::Ed25519Sha512;
/// let id = frost_core::Identifier::<C>::try_from(1u16).unwrap();
/// let _ = id;
/// ```
pub struct IdentifierConfined;

/// A `SigningKey` cannot be built around `from_scalar`'s zero check from outside (private field).
/// ```compile_fail,E0451
/// use frost_core::{Field, Group, Ciphersuite};
/// type C = frost_ed25519::Ed25519Sha512;
/// let zero = <<<C as Ciphersuite>::Group as Group>::Field as Field>::zero();
/// let k = frost_core::SigningKey::<C> { scalar: zero };
/// ```
/// twin (compiles, and refuses zero at run time — not executed here):
/// ```no_run
/// use frost_core::{Field, Group, Ciphersuite};
/// type C = frost_ed25519::Ed25519Sha512;
/// let zero = <<<C as Ciphersuite>::Group as Group>::Field as Field>::zero();
/// let k = frost_core::SigningKey::<C>::from_scalar(zero);
/// let _ = k;
/// ```
pub struct SigningKeyConfined;

/// The raw scalar wrapper is not `Debug`: `#[derive(Debug)]` on a struct holding a raw secret scalar
/// cannot compile, so a secret can only be printed by a hand-written impl (which rule C20:DEBUG reads).
/// ```compile_fail,E0277
/// type C = frost_ed25519::Ed25519Sha512;
/// #[derive(Debug)]
/// struct Leaky { s: frost_core::serialization::SerializableScalar<C> }
/// ```
/// twin (compiles): the same struct without the derive.
/// ```
/// type C = frost_ed25519::Ed25519Sha512;
/// #[allow(dead_code)]
/// struct NotLeaky { s: frost_core::serialization::SerializableScalar<C> }
/// ```
pub struct RawScalarNotDebug;

/// `Nonce` is not `Debug` either: `#[derive(Debug)]` on a nonce-holding struct cannot compile.
/// ```compile_fail,E0277
/// type C = frost_ed25519::Ed25519Sha512;
/// #[derive(Debug)]
/// struct Leaky { n: frost_core::round1::Nonce<C> }
/// ```
/// ```
/// type C = frost_ed25519::Ed25519Sha512;
/// #[allow(dead_code)]
/// struct NotLeaky { n: frost_core::round1::Nonce<C> }
/// ```
pub struct NonceNotDebug;
