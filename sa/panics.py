"""Engine F: panic-effect inventory over MIR."""
from .mir import callee_of
from .terms import short

# audited may-panic API table: (path predicate) -> kind.  std is deny-listed here; everything else in std is assumed
# total.  Non-std dependency functions are assumed total unless listed.
def panic_api(ci):
    if ci is None:
        return None
    p = ci["path"]
    n = ci.get("name")
    tr = ci.get("trait") or ""
    if p.startswith("core::panicking::") or p.startswith("std::panicking::") or p.startswith("core::panic::"):
        return "panic:" + n
    if p.startswith("core::option::Option::") and n in ("unwrap", "expect", "unwrap_unchecked"):
        return "Option::" + n
    if p.startswith("core::result::Result::") and n in ("unwrap", "expect", "unwrap_err", "expect_err", "unwrap_unchecked"):
        return "Result::" + n
    if (p.startswith("subtle::CtOption::") or p.startswith("ctutils::ct_option::CtOption::")) and n in ("unwrap", "expect"):
        return "CtOption::" + n
    if tr.endswith("::Index") and n == "index":
        return "Index::index"
    if tr.endswith("::IndexMut") and n == "index_mut":
        return "IndexMut::index_mut"
    if n in ("copy_from_slice", "clone_from_slice", "split_at", "split_at_mut", "swap", "rotate_left", "rotate_right",
             "copy_within") and p.startswith("core::slice::"):
        return "slice::" + n
    if n in ("chunks", "chunks_exact", "chunks_mut", "chunks_exact_mut", "windows", "rchunks") and p.startswith("core::slice::"):
        return "slice::" + n
    if p.startswith("alloc::vec::Vec::") and n in ("remove", "insert", "swap_remove", "drain", "split_off", "truncate_front"):
        return "Vec::" + n
    if p.startswith("alloc::collections::") and n in ("remove_entry_unchecked",):
        return "coll::" + n
    if n == "step_by" and tr.endswith("Iterator"):
        return "Iterator::step_by"
    if n in ("div_ceil", "div_euclid", "rem_euclid", "pow", "abs", "next_power_of_two", "ilog2", "ilog10", "ilog") and p.startswith("core::num::"):
        return "num::" + n
    if n in ("from_be_slice", "from_le_slice", "from_be_hex", "from_le_hex") and p.startswith("crypto_bigint::"):
        return "crypto_bigint::" + n
    if n in ("read_u64_into", "read_u32_into", "read_u64", "read_u32", "write_u64", "write_u32") and p.startswith("byteorder::"):
        return "byteorder::" + n
    if p.startswith("core::cell::RefCell") and n in ("borrow", "borrow_mut"):
        return "RefCell::" + n
    if n == "from_utf8_unchecked" or n == "unreachable_unchecked":
        return "unchecked:" + n
    if p.startswith("core::array::") and n in ("from_fn",):
        return None
    if n in ("from_slice", "clone_from_slice") and ("generic_array" in p or "hybrid_array" in p):
        return "array::" + n
    return None


POINTER_CHECKS = ("MisalignedPointerDereference", "NullPointerDereference", "InvalidEnumConstruction")


def inventory(prog):
    """[(fn, kind, bb, line)] for every workspace function with a body"""
    out = []
    for f in prog.fns.values():
        if not f.has_body:
            continue
        nb = f.normal_blocks()
        for b in f.blocks:
            if b.i not in nb:
                continue
            t = b.term
            if t["k"] == "assert":
                k = t["kind"]
                if k in POINTER_CHECKS:
                    continue
                out.append((f, "assert:" + k, b.i, t["span"]["line"]))
            elif t["k"] == "call":
                k = panic_api(callee_of(t))
                if k:
                    out.append((f, "call:" + k, b.i, t["span"]["line"]))
    return out
