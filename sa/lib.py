"""Shared rule helpers: term matchers, refusal (SEP) instances, loop-shape rule, call inventories."""
from . import guards
from .guards import branch_facts, sep, fail_is_error, ok_sinks, call_sinks, ret_writes
from .mir import callee_of, is_bare
from .terms import TermCx, fmt, is_call, is_field, strip_casts, mentions, subterms, short, INT_BITS

# ---------------- term matchers (callables term -> bool) ----------------


def anyt(t):
    return True


def arg(i):
    return lambda t: t == ("arg", i)


def const(v):
    return lambda t: isinstance(t, tuple) and t[0] == "const" and t[2] == v


def fld(base, name, adt=None):
    return lambda t: is_field(t, adt, name) and base(t[1])


def either(*ps):
    return lambda t: any(p(t) for p in ps)


def call(name, *argps, suffix=None):
    """call whose last path segment is `name` (or full path ends with suffix) and whose args match"""
    def m(t):
        if not (isinstance(t, tuple) and t and t[0] == "call"):
            return False
        if suffix is not None:
            if not t[1].endswith(suffix):
                return False
        elif t[1].rsplit("::", 1)[-1] != name:
            return False
        if argps and (len(t[2]) < len(argps) or not all(p(a) for p, a in zip(argps, t[2]))):
            return False
        return True
    return m


def length(inner):
    def m(t):
        if not isinstance(t, tuple) or not t:
            return False
        if t[0] == "call" and t[1].rsplit("::", 1)[-1] == "len" and len(t[2]) == 1:
            return inner(t[2][0])
        if t[0] == "len":
            return inner(t[1])
        return False
    return m


class Width:
    """records whether an operand of a matched comparison passed through a narrowing cast"""

    def __init__(self):
        self.narrow = []

    def of(self, inner):
        def m(t):
            u, n = strip_casts(t)
            if inner(u):
                if n:
                    self.narrow.append(fmt(t))
                return True
            # narrowing hidden inside (e.g. len() as u16 computed in a helper): look one level down
            return False
        return m


def some(inner):
    return lambda t: isinstance(t, tuple) and t[0] == "some" and inner(t[1])


def okv(inner):
    return lambda t: isinstance(t, tuple) and t[0] == "ok" and inner(t[1])


HOOKS = {"pre_sign", "pre_aggregate", "pre_verify", "pre_commitment_sign", "pre_commitment_aggregate"}


def hooked(inner):
    """value `inner`, possibly passed through the ciphersuite pre_* hooks (which return their arguments in order)"""
    def m(t):
        if inner(t):
            return True
        if not isinstance(t, tuple) or not t:
            return False
        if t[0] == "field" and t[2] is None and t[1][0] == "ok":
            c = t[1][1]
            if c[0] == "call" and c[1].rsplit("::", 1)[-1] in HOOKS:
                k = int(t[3])
                return k < len(c[2]) and m(c[2][k])
        if t[0] == "ok":
            c = t[1]
            if c[0] == "call" and c[1].rsplit("::", 1)[-1] in HOOKS:
                return bool(c[2]) and m(c[2][0])
        return False
    return m


def contains_term(inner):
    return lambda t: mentions(t, inner)


# ---------------- fact matchers ----------------

def cmp_fact(kind, pa, pb, refuse_when):
    """matches fact ('cond', kind, a, b, holds).  refuse_when: the truth value of kind(a,b) on which the code must
    refuse.  Returns 'fail' for the refusing edge and 'pass' for the other."""
    def m(fact):
        if fact[0] != "cond" or fact[1] != kind:
            return None
        a, b = fact[2], fact[3]
        ok = False
        if pa(a) and (pb is None or (b is not None and pb(b))):
            ok = True
        elif kind == "eq" and b is not None and pb is not None and pa(b) and pb(a):
            ok = True
        if not ok:
            return None
        return "fail" if fact[4] == refuse_when else "pass"
    return m


def succ_fact(px):
    """matches ('succ', X, ok): PASS on the success edge"""
    def m(fact):
        if fact[0] != "succ" or not px(fact[1]):
            return None
        return "pass" if fact[2] else "fail"
    return m


def variant_fact(px, pass_variants):
    def m(fact):
        if fact[0] != "variant" or not px(fact[1]):
            return None
        return "pass" if fact[2] in pass_variants else "fail"
    return m


class FnView:
    """per-function cache of terms and branch facts"""
    _cache = {}

    def __init__(self, prog, fn):
        self.prog = prog
        self.fn = fn
        self.cx = TermCx(prog, fn)
        self.facts = branch_facts(prog, fn, self.cx)

    @classmethod
    def get(cls, prog, fn):
        k = (id(prog), fn.key)
        if k not in cls._cache:
            cls._cache[k] = FnView(prog, fn)
        return cls._cache[k]

    def call_args(self, bb):
        t = self.fn.blocks[bb].term
        return tuple(self.cx.operand(a) for a in t["args"])

    def calls_named(self, name, trait=None):
        out = []
        for bb, t, ci in self.fn.calls():
            if ci and ci.get("name") == name:
                if trait is not None and not (ci.get("trait") or "").endswith(trait):
                    continue
                out.append((bb, t, ci))
        return out


def loc_of(fn, bb=None):
    if bb is None:
        return fn.loc
    sp = fn.blocks[bb].term["span"]
    return "%s:%d" % (sp["file"], sp["line"])


def refusal(ctx, fn, rule, what, mechanisms, sinks, width=None, require_fail_err=True, start=0):
    """SEP instance.  mechanisms: list of (name, fact-matcher).  Every path from `start` to a sink must cross a PASS
    edge of some mechanism whose FAIL side refuses (returns only Err)."""
    v = FnView.get(ctx.prog, fn)
    pass_edges = set()
    found = []
    for name, m in mechanisms:
        n = 0
        for (edge, fact) in v.facts:
            r = m(fact)
            if r is None:
                continue
            # the same switch yields both edges; take PASS edges only if the FAIL side refuses
            sw = edge[0]
            fails = [e for (e, f2) in v.facts if e[0] == sw and m(f2) == "fail"]
            if require_fail_err and not all(fail_is_error(fn, e, sinks) for e in fails):
                continue
            if r == "pass":
                pass_edges.add(edge)
                n += 1
        if n:
            found.append(name)
    sinks = set(sinks)
    if not sinks:
        ctx.violation(rule, fn.key, what + ":sink-missing",
                      "the protected construct (sink) of refusal '%s' was not found in %s; the rule instance cannot "
                      "be evaluated and fails closed" % (what, fn.key), fn.loc)
        return False
    left = sep(fn, pass_edges, sinks, start)
    if left:
        ctx.violation(rule, fn.key, what,
                      "refusal '%s' is not enforced on every path: with the success edges of the recognised "
                      "mechanisms %s removed, the protected construct at %s is still reachable from entry "
                      "(mechanisms found: %s)" % (what, [n for n, _ in mechanisms],
                                                   ", ".join(loc_of(fn, b) for b in sorted(left)), found or "none"),
                      loc_of(fn, min(left)))
        return False
    if width is not None and width.narrow:
        ctx.violation(rule + "-width", fn.key, what,
                      "the count compared by refusal '%s' passes through a narrowing integer cast (%s): a length "
                      "validated after truncation validates nothing" % (what, "; ".join(sorted(set(width.narrow)))),
                      fn.loc)
        return False
    ctx.ok(rule, fn.key, what, {"mechanisms": found, "pass_edges": sorted(pass_edges)[:6],
                                "sinks": [loc_of(fn, b) for b in sorted(sinks)][:6]})
    return True


# ---------------- loops / reductions ----------------

TRUNCATING = {"take", "skip", "step_by", "filter", "filter_map", "take_while", "skip_while", "map_while", "nth",
              "last", "zip", "chunks", "chunks_exact", "windows", "split_at", "split_first", "split_last",
              "truncate", "drain", "retain", "dedup", "peekable", "scan", "flat_map", "flatten", "find", "find_map",
              "position", "rposition", "nth_back", "rchunks", "first", "pop", "split_off", "get", "rev", "min", "max",
              "min_by_key", "max_by_key", "min_by", "max_by"}


def adaptor_inventory(fn):
    """calls to iterator/slice adaptors that can drop or reorder elements: {name: count}"""
    inv = {}
    for bb, t, ci in fn.calls():
        if not ci:
            continue
        p = ci["path"]
        n = ci.get("name")
        if n in TRUNCATING and (p.startswith("core::iter::") or p.startswith("core::slice::") or
                                p.startswith("alloc::vec::") or p.startswith("alloc::slice::") or
                                p.startswith("alloc::collections::")):
            # `get`/`first`/`last`/`pop` on collections are look-ups, tracked separately by name
            inv[n] = inv.get(n, 0) + 1
    return inv


def iter_loops(prog, fn):
    """loops driven by Iterator::next: [{header, body, next_bb, some_edge, none_edge, iter_term}]"""
    v = FnView.get(prog, fn)
    out = []
    for lp in fn.loops():
        info = dict(lp)
        info["next_bb"] = None
        for b in sorted(lp["body"]):
            t = fn.blocks[b].term
            ci = callee_of(t)
            if ci and ci.get("name") == "next" and (ci.get("trait") or "").endswith("Iterator"):
                info["next_bb"] = b
                info["iter_term"] = v.cx.operand(t["args"][0])
                info["item_local"] = t["dest"]["l"]
                break
        out.append(info)
    return out


def loop_exits(fn, lp):
    """edges leaving the loop: [(src, dst, label)]"""
    out = []
    for b in lp["body"]:
        for (t, lab) in fn.succs()[b]:
            if t not in lp["body"]:
                out.append((b, t, lab))
    return out


def err_only_region(fn, start, stop=frozenset()):
    """every write to _0 reachable from start is Err/residual and there is at least one"""
    r = fn.reach(start, stop=stop)
    ws = [(b, k) for (b, k, _) in ret_writes(fn) if b in r]
    return bool(ws) and all(k in ("err", "residual") for _, k in ws)
