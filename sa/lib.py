"""Shared rule helpers: term matchers, refusal (SEP) instances, loop-shape rule, call inventories."""
from . import guards
from .guards import peel_result, ok_facts_of_value, then_cond, branch_facts, sep, fail_is_error, ok_sinks, call_sinks, ret_writes
from .mir import callee_of, is_bare
from .terms import TermCx, fmt, is_call, is_field, strip_casts, mentions, subterms, short, INT_BITS

# ---------------- term matchers (callables term -> bool) ----------------


def anyt(t):
    return True


def base_of(t):
    """strip in-place-update wrappers: the value a (mutated / partially overwritten) local started from"""
    while isinstance(t, tuple) and t and t[0] in ("mut", "updated"):
        t = t[1]
    return t


def arg(i):
    return lambda t: base_of(t) == ("arg", i)


def const(v):
    return lambda t: isinstance(t, tuple) and t[0] == "const" and t[2] == v


def fld(base, name, adt=None):
    return lambda t: is_field(t, adt, name) and base(t[1])


def either(*ps):
    return lambda t: any(p(t) for p in ps)


def call(name, *argps, suffix=None):
    """call whose last path segment is `name` (or full path ends with suffix) and whose args match"""
    def m(t):
        if not (isinstance(t, tuple) and t and t[0] == "call"):
            return False
        if suffix is not None:
            if not t[1].endswith(suffix):
                return False
        elif t[1].rsplit("::", 1)[-1] != name:
            return False
        if argps and (len(t[2]) < len(argps) or not all(p(a) for p, a in zip(argps, t[2]))):
            return False
        return True
    return m


def length(inner):
    def m(t):
        if not isinstance(t, tuple) or not t:
            return False
        if t[0] == "call" and t[1].rsplit("::", 1)[-1] == "len" and len(t[2]) == 1:
            return inner(t[2][0])
        if t[0] == "len":
            return inner(t[1])
        return False
    return m


class Width:
    """records whether an operand of a matched comparison passed through a narrowing cast"""

    def __init__(self):
        self.narrow = []

    def of(self, inner):
        def m(t):
            u, n = strip_casts(t)
            if inner(u):
                if n:
                    self.narrow.append(fmt(t))
                return True
            # narrowing hidden inside (e.g. len() as u16 computed in a helper): look one level down
            return False
        return m


def some(inner):
    return lambda t: isinstance(t, tuple) and t[0] == "some" and inner(t[1])


def okv(inner):
    return lambda t: isinstance(t, tuple) and t[0] == "ok" and inner(t[1])


HOOKS = {"pre_sign", "pre_aggregate", "pre_verify", "pre_commitment_sign", "pre_commitment_aggregate"}


def hooked(inner):
    """value `inner`, possibly passed through the ciphersuite pre_* hooks (which return their arguments in order)"""
    def m(t):
        if inner(t):
            return True
        if not isinstance(t, tuple) or not t:
            return False
        if t[0] == "field" and t[2] is None and t[1][0] == "ok":
            c = t[1][1]
            if c[0] == "call" and c[1].rsplit("::", 1)[-1] in HOOKS:
                k = int(t[3])
                return k < len(c[2]) and m(c[2][k])
        if t[0] == "ok":
            c = t[1]
            if c[0] == "call" and c[1].rsplit("::", 1)[-1] in HOOKS:
                return bool(c[2]) and m(c[2][0])
        return False
    return m


def lagrange_of(idp, spp):
    """the interpolating value for identifier idp over the key set of signing package spp:
    derive_interpolating_value(id, sp) or its body compute_lagrange_coefficient(keys(sp.signing_commitments), None, id)"""
    def m(t):
        if is_call(t, name="derive_interpolating_value"):
            return idp(t[2][0]) and spp(t[2][1])
        if is_call(t, name="compute_lagrange_coefficient"):
            s, x, xi = t[2][0], t[2][1], t[2][2]
            keys = mentions(s, lambda u: is_call(u, name="keys") and fld(spp, "signing_commitments")(u[2][0]))
            none = x[0] == "agg" and x[3] == "None"
            return keys and none and idp(xi)
        return False
    return m


def contains_term(inner):
    return lambda t: mentions(t, inner)


# ---------------- fact matchers ----------------

def cmp_fact(kind, pa, pb, refuse_when):
    """matches fact ('cond', kind, a, b, holds).  refuse_when: the truth value of kind(a,b) on which the code must
    refuse.  Returns 'fail' for the refusing edge and 'pass' for the other."""
    def m(fact):
        if fact[0] != "cond" or fact[1] != kind:
            return None
        a, b = fact[2], fact[3]
        ok = False
        if pa(a) and (pb is None or (b is not None and pb(b))):
            ok = True
        elif kind == "eq" and b is not None and pb is not None and pa(b) and pb(a):
            ok = True
        if not ok:
            return None
        return "fail" if fact[4] == refuse_when else "pass"
    return m


def succ_fact(px):
    """matches ('succ', X, ok): PASS on the success edge"""
    def m(fact):
        if fact[0] != "succ":
            return None
        # `x.ok_or(E)?`, `x.map_err(..)?` succeed exactly when x does
        if not (px(fact[1]) or (peel_result(fact[1]) != fact[1] and px(peel_result(fact[1])))):
            return None
        return "pass" if fact[2] else "fail"
    return m


def variant_fact(px, pass_variants):
    def m(fact):
        if fact[0] != "variant" or not px(fact[1]):
            return None
        return "pass" if fact[2] in pass_variants else "fail"
    return m


LIFT_DEPTH = 2


def lifted_facts(prog, H, args, frames, depth=0):
    """facts that H's success implies: every branch fact of H (terms with H's parameters replaced by the call's argument
    terms) whose edge alone separates H's entry from all of its Ok/Some returns.  Used to see a guard through an extracted
    private helper: if `helper(a, b)?` succeeded, the check inside the helper succeeded on (a, b)."""
    key = (H.key, args, depth)
    if key in _lift_cache:
        return _lift_cache[key]
    _lift_cache[key] = []
    sub = {i + 1: a for i, a in enumerate(args)}
    cx = TermCx(prog, H, sub, 1, frames=frames)
    facts = branch_facts(prog, H, cx)
    out_ty = H.j.get("output") or ""
    if out_ty.startswith("core::result::Result<"):
        oks = ok_sinks(H)
    elif out_ty.startswith("core::option::Option<"):
        oks = {b for (b, k, rv) in ret_writes(H) if not (k == "other" and rv.get("k") == "agg" and rv.get("variant") == "None")}
    else:
        return []
    out = []
    for (e, fa) in facts:
        if not sep(H, {e}, oks):
            out.append(fa)
            if depth < LIFT_DEPTH and fa[0] == "succ" and fa[2]:
                out += _lift_call(prog, fa[1], frames, depth + 1)
    # a value returned as it is (`cond.then_some(()).ok_or(E)` / `helper(..)` in tail position): if that is the only
    # successful exit, whatever makes that value Ok holds on success
    tails = [(b, k, rv) for (b, k, rv) in ret_writes(H) if b in oks]
    if len(tails) == 1 and tails[0][1] in ("call", "other"):
        b, k, rv = tails[0]
        T = cx.call(rv, cx.site(b)) if k == "call" else cx.rvalue(rv, (H.key, b, 0))
        out += ok_facts_of_value(T)
        if depth < LIFT_DEPTH:
            out += _lift_call(prog, T, frames, depth + 1)
    _lift_cache[key] = out
    return out


def _lift_call(prog, X, frames, depth):
    X = peel_result(X)
    if not (isinstance(X, tuple) and X and X[0] == "call"):
        return []
    H = prog.fns.get(X[1])
    if H is None or not H.has_body or not H.crate.startswith("frost") or H.j.get("impl_trait") and False:
        return []
    if X[4] is not None and X[1] not in prog.fns:
        return []
    return lifted_facts(prog, H, X[2], frames + (X[3],), depth)


_lift_cache = {}


class FnView:
    """per-function cache of terms and branch facts (with facts lifted out of called workspace helpers).
    With `argsub` the terms are expressed in the vocabulary of a caller (helper / closure seen from its call site)."""
    _cache = {}

    def __init__(self, prog, fn, argsub=None, frames=()):
        self.prog = prog
        self.fn = fn
        self.frames = frames
        self.cx = TermCx(prog, fn, argsub, 1 if argsub is not None else 0, frames=frames) if (argsub is not None or frames) else TermCx(prog, fn)
        self.own_facts = branch_facts(prog, fn, self.cx)
        self.facts = list(self.own_facts)
        extra = []
        for (e, fa) in self.facts:
            if fa[0] == "succ" and fa[2]:
                Y = peel_result(fa[1])
                if isinstance(Y, tuple) and Y and Y[0] == "call" and Y[1] in prog.fns and Y[1] != fn.key:
                    H = prog.fns[Y[1]]
                    if H.has_body and H.crate.startswith("frost"):
                        for lf in _lift_call(prog, Y, frames, len(frames)):
                            extra.append((e, lf))
        self.facts = self.facts + extra
        self.facts = self.facts + flag_facts(fn, self.facts, self.cx)
        self.facts = self.facts + any_eq_facts(prog, self.facts)
        self.facts = self.facts + option_pred_facts(prog, self.facts)

    @classmethod
    def get(cls, prog, fn):
        k = (id(prog), fn.key, id(fn))
        if k not in cls._cache:
            cls._cache[k] = FnView(prog, fn)
        return cls._cache[k]

    def call_args(self, bb):
        t = self.fn.blocks[bb].term
        return tuple(self.cx.operand(a) for a in t["args"])

    def calls_named(self, name, trait=None):
        out = []
        for bb, t, ci in self.fn.calls():
            if ci and ci.get("name") == name:
                if trait is not None and not (ci.get("trait") or "").endswith(trait):
                    continue
                out.append((bb, t, ci))
        return out


def option_pred_facts(prog, facts):
    """`opt.is_some_and(|v| p(v))` / `res.is_ok_and(..)` / `opt.is_none_or(..)`: true = Some and p(payload); false = None or
    not p(payload) (a disjunction: recorded as an ("all", ..) fact — whichever member holds, it must be a recognised check)"""
    from .guards import norm_cond
    out = []
    for (e, fa) in facts:
        if not (fa[0] == "cond" and fa[1] == "other" and isinstance(fa[2], tuple) and fa[2]):
            continue
        core, pos = pred_core(fa[2])
        if not (is_call(core) and core[1].rsplit("::", 1)[-1] in ("is_some_and", "is_ok_and", "is_none_or") and len(core[2]) == 2
                and core[2][1][0] == "closure"):
            continue
        nm = core[1].rsplit("::", 1)[-1]
        X = core[2][0]
        body = closure_body(prog, core[2][1], {2: ("some", X) if "option" in core[1] else ("ok", X)})
        if body is None:
            continue
        kind, a, b, bpos = norm_cond(body)
        H = fa[4] if pos else (not fa[4])
        inner = lambda truth: ("cond", kind, a, b, truth == bpos)
        if nm in ("is_some_and", "is_ok_and"):
            if H:
                out += [(e, ("succ", X, True)), (e, inner(True))]
            else:
                out.append((e, ("all", (("succ", X, False), inner(False)))))
        else:
            if H:
                out.append((e, ("all", (("succ", X, False), inner(True)))))
            else:
                out += [(e, ("succ", X, True)), (e, inner(False))]
    return out


def any_eq_facts(prog, facts):
    """`S.iter().any(|x| *x == c)` is `S.contains(&c)`: a contains fact next to the any fact"""
    from .guards import norm_cond
    out = []
    for (e, fa) in facts:
        if fa[0] == "cond" and fa[1] == "any" and fa[3] is not None and fa[3][0] == "closure":
            body = closure_body(prog, fa[3], {2: ITEM})
            if body is None:
                continue
            kind, a, b, pos = norm_cond(body)
            if kind == "eq" and pos and b is not None:
                a, b = strip_newtype_fields(a), strip_newtype_fields(b)    # a derived PartialEq compares the wrapped values
                other = b if a == ITEM else a if b == ITEM else None
                if other is not None and not mentions(other, lambda s: s == ITEM):
                    out.append((e, ("cond", "contains", count_base(fa[2]), other, fa[4])))
    return out


def flag_facts(fn, facts, cx=None):
    """A boolean local assigned only constants, each assignment sitting exclusively under some edges of one earlier switch
    (`let stop = matches!(mode, FirstCheater)`): a later test of the flag carries the facts of those edges.  Several
    variant facts on one edge mean "one of these" (as on an `otherwise` edge)."""
    out = []
    by_switch = {}
    for (e2, f2) in facts:
        by_switch.setdefault(e2[0], []).append((e2, f2))
    for (e, fa) in facts:
        if not (fa[0] == "cond" and fa[1] == "other" and isinstance(fa[2], tuple) and fa[2] and fa[2][0] == "phi"):
            continue
        alts = fa[2][2]
        if alts and not any(a[0] == "const" for a in alts):
            # a flag computed by a different comparison on each incoming path (`let ok = if a { x == y } else { u == w }`), tested
            # here or in a helper it was handed to: on an edge of the test, the comparison of whichever definition reached it
            # has that truth value
            from .guards import norm_cond
            subs = []
            for t in alts:
                kind, a, b, pos = norm_cond(t)
                subs.append(("cond", kind, a, b, fa[4] == pos))
            out.append((e, ("all", tuple(subs))))
            continue
        if fa[2][1][0] != fn.key:
            continue
        L = fa[2][1][1]
        ds = fn.defs().get(L, [])
        vals = {}
        bad = False
        for d in ds:
            if d[0] != "assign" or d[3]["k"] != "use" or "const" not in d[3]["op"] or "bits" not in d[3]["op"]["const"]:
                bad = True
                break
            vals.setdefault(d[3]["op"]["const"]["bits"] != "0", set()).add(d[1])
        if bad or len(vals) != 2:
            continue
        mine, others = vals[fa[4]], vals[not fa[4]]
        for sw, lst in by_switch.items():
            if sw == e[0]:
                continue
            edges = sorted({e2 for e2, _ in lst})
            cut = frozenset(edges)
            r = {e2: fn.reach(e2[1], removed=cut) for e2 in edges}
            em = [e2 for e2 in edges if r[e2] & mine]
            eo = [e2 for e2 in edges if r[e2] & others]
            if not em or set(em) & set(eo):
                continue
            if not all(any(b in r[e2] for e2 in edges) for b in mine | others):
                continue
            if e[0] not in set().union(*r.values()):
                continue
            got = [f2 for e2, f2 in lst if e2 in em]
            if len(em) == 1:
                out.extend((e, f2) for f2 in got)
            elif all(f2[0] == "variant" for f2 in got) and len({f2[1] for f2 in got}) == 1:
                out.extend((e, f2) for f2 in dict.fromkeys(got))
    return out


def exclusive(facts, m):
    """edges on which m(fact) == 'pass' and which carry no alternative variant of the same scrutinee ("one of" edges)"""
    out = set()
    for (e, fa) in facts:
        if m(fa) != "pass":
            continue
        if fa[0] == "variant" and any(e2 == e and f2[0] == "variant" and f2[1] == fa[1] and f2[2] != fa[2] for (e2, f2) in facts):
            continue
        out.add(e)
    return out


def ok_values(f, v):
    """terms of the success value on every path that can return one: `Ok(x)` -> x; a tail call whose Result is returned
    as it is (`helper(..)` in tail position) -> its Ok payload"""
    from .guards import returns_result
    from .terms import okval
    out = []
    for (b, k, rv) in ret_writes(f):
        if k == "ok":
            out.append(v.cx.operand(rv["ops"][0]))
        elif k == "call" and returns_result(f):
            out += ok_of(v.prog, v.cx.call(rv, v.cx.site(b)))
    return list(dict.fromkeys(out))       # the same value returned on several paths is one value


class _NoFn:
    key = None


_NOFN = _NoFn()


def ok_of(prog, T, depth=0):
    """Ok payload(s) of a Result-valued term returned as it is: `x.map(|v| f(v))` -> f(ok(x)); `x.and_then(|v| g(v))` -> the Ok
    payloads of g(ok(x)); anything else -> its Ok payload"""
    from .terms import okval
    if T[0] == "phi" and depth < 3:
        # a Result assembled on several paths (`?` exits and the final Ok): the Ok payloads of its non-error alternatives
        out = []
        for a in T[2]:
            if a[0] in ("residual", "errval") or (a[0] == "agg" and a[2] == "core::result::Result" and a[3] == "Err"):
                continue
            out += ok_of(prog, a, depth + 1)
        if out:
            return out
    if T[0] == "agg" and T[2] == "core::result::Result" and T[3] == "Ok":
        return [T[4][0][1]]
    if is_call(T) and len(T[2]) == 2 and T[2][1][0] in ("closure", "fnref") and "result::Result" in T[1] and depth < 3:
        nm = T[1].rsplit("::", 1)[-1]
        body = apply_callable(prog, T[2][1], [okval(T[2][0])])
        if body is not None and nm == "map":
            return [body]
        if body is not None and nm == "and_then":
            alts = body[2] if body[0] == "phi" else (body,)
            out = []
            for a in alts:
                if a[0] in ("residual", "errval") or (a[0] == "agg" and a[2] == "core::result::Result" and a[3] == "Err"):
                    continue
                out += ok_of(prog, a, depth + 1)
            return out
    # a private helper no rule names, in tail position: its own Ok payloads, seen with the call's arguments
    H, Y = helper_call(prog, _NOFN, T)
    if H is not None and depth < 3 and (H.j.get("output") or "").startswith("core::result::Result<"):
        from .inline import vocabulary
        if H.name not in vocabulary() and H.j.get("vis") != "Public" and not H.j.get("reachable") and not H.j.get("impl_trait"):
            hv = FnView(prog, H, {i + 1: a for i, a in enumerate(Y[2])}, (Y[3],))
            out = []
            for (b, k, rv) in ret_writes(H):
                if k == "ok":
                    out.append(hv.cx.operand(rv["ops"][0]))
                elif k == "call":
                    out += ok_of(prog, hv.cx.call(rv, hv.cx.site(b)), depth + 1)
            if out:
                return out
    return [okval(T)]


def loc_of(fn, bb=None):
    if bb is None:
        return fn.loc
    sp = fn.blocks[bb].term["span"]
    return "%s:%d" % (sp["file"], sp["line"])


def refusal(ctx, fn, rule, what, mechanisms, sinks, width=None, require_fail_err=True, start=0):
    """SEP instance.  mechanisms: list of (name, fact-matcher).  Every path from `start` to a sink must cross a PASS
    edge of some mechanism whose FAIL side refuses (returns only Err)."""
    v = FnView.get(ctx.prog, fn)
    pass_edges, found = pass_edges_of(ctx.prog, v, mechanisms, sinks, require_fail_err)
    guarded = guarded_sinks(ctx.prog, v, mechanisms, sinks, require_fail_err)
    all_sinks = set(sinks)
    sinks = all_sinks - guarded
    if not sinks and all_sinks and (found or guarded):
        ctx.ok(rule, fn.key, what, {"mechanisms": found, "note": "every successful exit returns a value that is Ok only if the check holds"})
        return True
    sinks = set(sinks)
    if not sinks:
        ctx.violation(rule, fn.key, what + ":sink-missing",
                      "the protected construct (sink) of refusal '%s' was not found in %s; the rule instance cannot "
                      "be evaluated and fails closed" % (what, fn.key), fn.loc)
        return False
    left = sep(fn, pass_edges, sinks, start)
    if left:
        ctx.violation(rule, fn.key, what,
                      "refusal '%s' is not enforced on every path: with the success edges of the recognised "
                      "mechanisms %s removed, the protected construct at %s is still reachable from entry "
                      "(mechanisms found: %s)" % (what, [n for n, _ in mechanisms],
                                                   ", ".join(loc_of(fn, b) for b in sorted(left)), found or "none"),
                      loc_of(fn, min(left)))
        return False
    if width is not None and width.narrow:
        ctx.violation(rule + "-width", fn.key, what,
                      "the count compared by refusal '%s' passes through a narrowing integer cast (%s): a length "
                      "validated after truncation validates nothing" % (what, "; ".join(sorted(set(width.narrow)))),
                      fn.loc)
        return False
    ctx.ok(rule, fn.key, what, {"mechanisms": found, "pass_edges": sorted(pass_edges)[:6],
                                "sinks": [loc_of(fn, b) for b in sorted(sinks)][:6]})
    return True


def helper_call(prog, fn, X):
    """X (a Result/Option term, plumbing peeled) is a call to a workspace function with a body: that function"""
    Y = peel_result(X)
    if isinstance(Y, tuple) and Y and Y[0] == "call" and Y[1] in prog.fns and Y[1] != fn.key:
        H = prog.fns[Y[1]]
        if H.has_body and H.crate.startswith("frost"):
            return H, Y
    return None, None


def success_sinks(H):
    out_ty = H.j.get("output") or ""
    if out_ty.startswith("core::option::Option<"):
        return {b for (b, k, rv) in ret_writes(H) if not (k == "other" and rv.get("k") == "agg" and rv.get("variant") == "None")}
    return ok_sinks(H)


def _exit_refuses_by_flag(fn, v, e, lp, effectful):
    """a loop exit that is an error return in disguise: from the (forced) chain of blocks that ends in the exit edge, following
    only the feasible sides of later flag tests, every return is an error and none of the code after the loop runs"""
    starts = [e[1]]
    s = e[0]
    for _ in range(4):
        if s not in lp["body"] or len([t for (t, lab) in fn.succs()[s] if lab != "unwind"]) != 1:
            break
        starts.append(s)
        ps = [p for (p, _l) in fn.preds().get(s, ())]
        if len(ps) != 1:
            break
        s = ps[0]
    for st in starts:
        r = reach_flagaware(fn, v, st)
        ws = [(b, k) for (b, k, _) in ret_writes(fn) if b in r]
        errw = {b for (b, k) in ws if k in ("err", "residual")}
        if ws and all(k in ("err", "residual") for _, k in ws) and not ((r - lp["body"] - errw) & effectful):
            return True
    return False



def reach_flagaware(fn, v, start):
    """blocks reachable from `start`, not following the infeasible side of a flag test: at a test of a boolean local all of whose
    definitions on the way from `start` are the same constant, only the matching edge is taken (`ok = false; .. if !ok { Err }`)"""
    tests = {}
    for (e, fa) in v.own_facts:
        if fa[0] == "cond" and fa[1] == "other" and isinstance(fa[2], tuple) and fa[2]:
            core, pos = pred_core(fa[2])
            if core[0] == "phi" and core[1][0] == fn.key:
                tests.setdefault(e[0], []).append((e, core[1][1], fa[4] if pos else (not fa[4])))
    seen = set()
    todo = [start]
    plain = fn.reach(start)
    while todo:
        b = todo.pop()
        if b in seen:
            continue
        seen.add(b)
        allowed = None
        if b in tests:
            L = tests[b][0][1]
            before = fn.reach(start, stop=frozenset({b}))      # on the way from start to this test (not around a loop again)
            ds = [d for d in fn.defs().get(L, []) if d[0] in ("assign", "call") and d[1] in before and d[1] != b]
            vals = set()
            for d in ds:
                if d[0] == "assign" and d[3]["k"] == "use" and "const" in d[3]["op"] and "bits" in d[3]["op"]["const"]:
                    vals.add(d[3]["op"]["const"]["bits"] != "0")
                else:
                    vals.add(None)
            if ds and len(vals) == 1 and None not in vals:
                # every path from start to the test passes one of these definitions?
                cut = frozenset((p, d[1]) for d in ds for (p, _l) in fn.preds().get(d[1], ()))
                if b not in fn.reach(start, removed=cut) or start in {d[1] for d in ds}:
                    c = next(iter(vals))
                    allowed = {e for (e, _L, T) in tests[b] if T == c}
        for (t, lab) in fn.succs()[b]:
            if allowed is not None and (b, t, lab) not in allowed:
                continue
            todo.append(t)
    return seen


def fail_refuses(fn, v, edge, sinks=()):
    """the FAIL side of a check refuses: plainly (fail_is_error), or once the infeasible sides of flag tests are discounted"""
    if fail_is_error(fn, edge, sinks):
        return True
    r = reach_flagaware(fn, v, edge[1])
    ws = [(b, k) for (b, k, _) in ret_writes(fn) if b in r]
    return bool(ws) and all(k in ("err", "residual") for _, k in ws) and not (r & set(sinks))


def flag_carried(fn, v, pass_edges, starts=(0,), within=None, fail_ok=None):
    """PASS edges carried by a boolean flag: `let ok = a && ..; .. if !ok { return Err }`.  The edge of a test of a flag local on
    which the flag has truth value T is a PASS edge if every definition of the flag that can give T (a constant T, or a computed
    value) sits at a block that cannot be reached from `starts` without crossing a PASS edge already known — whichever such
    definition reached the test, the check had passed — and the other side of the test refuses (fail_ok(edge))."""
    out = set(pass_edges)
    for _round in range(3):
        added = False
        for (e, fa) in v.own_facts:
            if e in out or not (fa[0] == "cond" and fa[1] == "other" and isinstance(fa[2], tuple) and fa[2]):
                continue
            core, pos = pred_core(fa[2])
            if not (core[0] == "phi" and core[1][0] == fn.key):
                continue
            T = fa[4] if pos else (not fa[4])          # truth value of the flag local on this edge
            L = core[1][1]
            ds = [d for d in fn.defs().get(L, []) if d[0] in ("assign", "call")]
            if not ds or (within is not None and not all(d[1] in within for d in ds)):
                continue
            cons = []
            for d in ds:
                if d[0] == "assign" and d[3]["k"] == "use" and "const" in d[3]["op"] and "bits" in d[3]["op"]["const"]:
                    if (d[3]["op"]["const"]["bits"] != "0") == T:
                        cons.append(d[1])
                else:
                    cons.append(d[1])
            if not cons:
                continue
            r = set()
            for s0 in starts:
                r |= fn.reach(s0, removed=frozenset(out))
            if any(b in r for b in cons):
                continue
            others = [e2 for (e2, f2) in v.own_facts if e2[0] == e[0] and e2 != e and f2[0] == "cond" and f2[2] == fa[2]]
            if fail_ok is not None and not all(fail_ok(e2) for e2 in others):
                continue
            out.add(e)
            added = True
        if not added:
            break
    return out


def pass_edges_of(prog, v, mechanisms, sinks, require_fail_err=True, depth=0):
    """PASS edges of the mechanisms in the function of view v: (i) branch edges whose fact matches and whose FAIL side
    refuses; (ii) the success edge of `helper(..)?` when, inside the helper (seen with the call's arguments), every path to a
    successful return crosses a PASS edge — an extracted group of validations is followed into the helper."""
    fn = v.fn
    pass_edges = set()
    found = []
    # a conjunction fact ("all", facts) passes only if, for every member, some mechanism passes (whichever definition of
    # the tested flag reached the edge, its comparison was one of the recognised checks)
    any_m = lambda fa: ("pass" if any(m_(fa) == "pass" for _, m_ in mechanisms) else
                        "fail" if any(m_(fa) == "fail" for _, m_ in mechanisms) else None)
    mechanisms = [(name, (lambda fa, m=m: (None if not fa[1] else
                                           "pass" if all(any_m(x) == "pass" for x in fa[1]) else
                                           "fail" if all(any_m(x) == "fail" for x in fa[1]) else None)
                          if fa[0] == "all" else m(fa))) for name, m in mechanisms]
    for name, m in mechanisms:
        n = 0
        for (edge, fact) in v.facts:
            r = m(fact)
            if r is None:
                continue
            # the same switch yields both edges; take PASS edges only if the FAIL side refuses
            sw = edge[0]
            fails = [e for (e, f2) in v.facts if e[0] == sw and m(f2) == "fail"]
            if require_fail_err and not all(fail_refuses(fn, v, e, sinks) for e in fails):
                continue
            if r == "pass":
                pass_edges.add(edge)
                n += 1
        if n:
            found.append(name)
    if depth < LIFT_DEPTH:
        for (edge, fact) in v.own_facts:
            if not (fact[0] == "succ" and fact[2]) or edge in pass_edges:
                continue
            H, Y = helper_call(prog, fn, fact[1])
            if H is None:
                continue
            hv = FnView(prog, H, {i + 1: a for i, a in enumerate(Y[2])}, v.frames + (Y[3],))
            hs = success_sinks(H)
            pe, fnd = pass_edges_of(prog, hv, mechanisms, hs, require_fail_err, depth + 1)
            hs = hs - guarded_sinks(prog, hv, mechanisms, hs, require_fail_err, depth + 1)
            if fnd and not sep(H, pe, hs):
                fails = [e for (e, f2) in v.own_facts if e[0] == edge[0] and f2[0] == "succ" and f2[1] == fact[1] and not f2[2]]
                if require_fail_err and not all(fail_is_error(fn, e, sinks) for e in fails):
                    continue
                pass_edges.add(edge)
                found += [n_ + " (in %s)" % H.name for n_ in fnd]
    if pass_edges:
        more = flag_carried(fn, v, pass_edges, fail_ok=(lambda e: fail_refuses(fn, v, e, sinks)) if require_fail_err else None)
        if more - pass_edges:
            found.append("carried by a flag")
        pass_edges = more
    return pass_edges, found


def guarded_sinks(prog, v, mechanisms, sinks, require_fail_err=True, depth=0):
    """successful exits that return a value as it is (`cond.then_some(x).ok_or(E)`, `helper(..)`): guarded when that value
    is Ok only if some mechanism's check passed"""
    fn = v.fn
    out = set()
    for (b, k, rv) in ret_writes(fn):
        if b not in sinks or k not in ("call", "other"):
            continue
        T = v.cx.call(rv, v.cx.site(b)) if k == "call" else v.cx.rvalue(rv, (fn.key, b, 0))
        if any(m(fa) == "pass" for fa in ok_facts_of_value(T) for _, m in mechanisms):
            out.add(b)
            continue
        if depth < LIFT_DEPTH:
            H, Y = helper_call(prog, fn, T)
            if H is not None:
                hv = FnView(prog, H, {i + 1: a for i, a in enumerate(Y[2])}, v.frames + (Y[3],))
                hs = success_sinks(H)
                pe, fnd = pass_edges_of(prog, hv, mechanisms, hs, require_fail_err, depth + 1)
                hs = hs - guarded_sinks(prog, hv, mechanisms, hs, require_fail_err, depth + 1)
                if fnd and not sep(H, pe, hs):
                    out.add(b)
                    continue
            # `x.and_then(|v| { check(v)?; Ok(..) })` returned as it is: the closure is the helper, its parameter the Ok payload
            Tp = peel_result(T)
            if is_call(Tp) and Tp[1].rsplit("::", 1)[-1] == "and_then" and len(Tp[2]) == 2 and Tp[2][1][0] == "closure":
                from .terms import okval
                clo = Tp[2][1]
                cf = prog.fns.get(clo[1])
                if cf is not None and cf.has_body:
                    sub = {1: ("agg", "tuple", None, None, tuple((str(n), val) for n, val in enumerate(clo[2]))),
                           2: (("some", Tp[2][0]) if "option" in Tp[1] else okval(Tp[2][0]))}
                    cv = FnView(prog, cf, sub, v.frames + (("clo", clo[1]),))
                    hs = success_sinks(cf) if (cf.j.get("output") or "") else ok_sinks(cf)
                    pe, fnd = pass_edges_of(prog, cv, mechanisms, hs, require_fail_err, depth + 1)
                    hs = hs - guarded_sinks(prog, cv, mechanisms, hs, require_fail_err, depth + 1)
                    if fnd and not sep(cf, pe, hs):
                        out.add(b)
    return out


# ---------------- loops / reductions ----------------

# adaptors that can drop, pair up or reorder the elements of a sequence (look-ups such as get/first/last/min are
# not sequence transformers and are not listed)
TRUNCATING = {"take", "skip", "step_by", "filter", "filter_map", "take_while", "skip_while", "map_while", "nth",
              "zip", "chunks", "chunks_exact", "rchunks", "windows", "split_at", "split_off", "truncate", "drain",
              "retain", "dedup", "scan", "find", "find_map", "position", "rposition", "nth_back", "rev", "reverse",
              "sort", "sort_by", "sort_by_key", "sort_unstable", "swap", "swap_remove", "remove", "pop",
              "last", "first", "min", "max"}
LOOKUPS = {"last", "first", "min", "max", "pop", "remove"}


def adaptor_inventory(fn):
    """calls to iterator/slice adaptors that can drop or reorder elements: {name: count}"""
    inv = {}
    for bb, t, ci in fn.calls():
        if not ci:
            continue
        p = ci["path"]
        n = ci.get("name")
        if n in TRUNCATING and (p.startswith("core::iter::") or p.startswith("core::slice::") or
                                p.startswith("alloc::vec::") or p.startswith("alloc::slice::") or
                                p.startswith("alloc::collections::")):
            # `get`/`first`/`last`/`pop` on collections are look-ups, tracked separately by name
            inv[n] = inv.get(n, 0) + 1
    return inv


def iter_loops(prog, fn):
    """loops driven by Iterator::next: [{header, body, next_bb, some_edge, none_edge, iter_term}]"""
    v = FnView.get(prog, fn)
    out = []
    for lp in fn.loops():
        info = dict(lp)
        info["next_bb"] = None
        for b in sorted(lp["body"]):
            t = fn.blocks[b].term
            ci = callee_of(t)
            if ci and ci.get("name") == "next" and (ci.get("trait") or "").endswith("Iterator"):
                info["next_bb"] = b
                info["iter_term"] = v.cx.operand(t["args"][0])
                info["item_local"] = t["dest"]["l"]
                break
        out.append(info)
    return out


def loop_exits(fn, lp):
    """edges leaving the loop: [(src, dst, label)]"""
    out = []
    for b in lp["body"]:
        for (t, lab) in fn.succs()[b]:
            if t not in lp["body"]:
                out.append((b, t, lab))
    return out


def err_only_region(fn, start, stop=frozenset()):
    """every write to _0 reachable from start is Err/residual and there is at least one"""
    r = fn.reach(start, stop=stop)
    ws = [(b, k) for (b, k, _) in ret_writes(fn) if b in r]
    return bool(ws) and all(k in ("err", "residual") for _, k in ws)


def _outside_defs(fn, lp):
    """locals with a whole definition outside the loop body (candidates for loop-carried state)"""
    out = set()
    for l, ds in fn.defs().items():
        if any(d[1] not in lp["body"] for d in ds if d[0] in ("assign", "call")):
            out.add(l)
    for l in range(1, fn.arg_count + 1):
        out.add(l)
    return out


def _ref_roots(fn):
    """local -> set of root locals it may be a reference to (through `&mut x` / `&x` / reborrow / field borrow)"""
    roots = {}
    for l, ds in fn.defs().items():
        for d in ds:
            if d[0] == "assign" and d[3]["k"] in ("ref", "rawptr"):
                roots.setdefault(l, set()).add(d[3]["place"]["l"])
            elif d[0] == "assign" and d[3]["k"] == "use":
                op = d[3]["op"]
                src = op.get("copy") or op.get("move")
                if src is not None and fn.local_ty(l).startswith("&"):
                    roots.setdefault(l, set()).add(src["l"])
    # transitive closure
    changed = True
    while changed:
        changed = False
        for l, rs in list(roots.items()):
            for r in list(rs):
                for rr in roots.get(r, ()):
                    if rr not in rs:
                        rs.add(rr)
                        changed = True
    return roots


def is_drop_flag(fn, l):
    if fn.local_ty(l) != "bool":
        return False
    ds = fn.defs().get(l, [])
    return bool(ds) and all(d[0] == "assign" and d[3]["k"] == "use" and "const" in d[3]["op"] for d in ds)


def accumulation_sites(fn, lp, innermost_only=None):
    """{written outside-defined local: set(blocks in loop that write it)}; direct assignments and calls that receive
    a `&mut` to it.  The loop's own iterator and drop flags are excluded."""
    outside = _outside_defs(fn, lp)
    roots = fn.ref_roots()
    iter_locals = set()
    for b in lp["body"]:
        t = fn.blocks[b].term
        ci = callee_of(t)
        if ci and ci.get("name") == "next" and t["args"]:
            a = t["args"][0]
            p = a.get("move") or a.get("copy")
            if p:
                iter_locals.add(p["l"])
                iter_locals |= roots.get(p["l"], set())
    acc = {}
    for b in lp["body"]:
        if innermost_only is not None and b not in innermost_only:
            continue
        blk = fn.blocks[b]
        for s in blk.stmts:
            if s["k"] != "assign":
                continue
            l = s["place"]["l"]
            targets = {l} if l in outside else set()
            if any(e == "*" for e in s["place"]["p"]):
                targets |= {r for r in roots.get(l, ()) if r in outside}
            for tl in targets:
                if tl == 0 or tl in iter_locals or is_drop_flag(fn, tl):
                    continue
                if s["rv"]["k"] in ("ref", "rawptr", "discr"):
                    continue
                # storage re-initialisation of a temp that is also defined outside is not loop-carried unless
                # it is read before being written; approximate: only locals that are user variables or mutable
                acc.setdefault(tl, set()).add(b)
        t = blk.term
        if t["k"] == "call":
            ci = callee_of(t)
            if ci and ci.get("name") == "next" and (ci.get("trait") or "").endswith("Iterator"):
                continue
            d = t["dest"]["l"]
            if d in outside and d != 0 and d not in iter_locals and is_bare(t["dest"]) and not is_drop_flag(fn, d):
                acc.setdefault(d, set()).add(b)
            for a, aty in zip(t["args"], t.get("arg_tys", [])):
                if not aty.startswith("&mut"):
                    continue
                p = a.get("move") or a.get("copy")
                if not p:
                    continue
                for r in roots.get(p["l"], set()) | ({p["l"]} if not fn.local_ty(p["l"]).startswith("&") else set()):
                    if r in outside and r not in iter_locals:
                        acc.setdefault(r, set()).add(b)
    # keep only locals that are really carried: used/defined outside the loop as user-visible state
    names = fn.var_names()
    return {l: bs for l, bs in acc.items() if l in names}


def loop_report(prog, fn, view=None):
    """shape facts of every natural loop: exits (exhausted / error / break), skippable accumulations."""
    v = view or FnView.get(prog, fn)
    out = []
    loops = fn.loops()
    retw = {b for (b, k, _) in ret_writes(fn)}
    for lp in loops:
        inner_blocks = set()
        for other in loops:
            if other is not lp and other["body"] < lp["body"]:
                inner_blocks |= other["body"]
        own = lp["body"] - inner_blocks
        info = {"header": lp["header"], "body": lp["body"], "line": fn.blocks[lp["header"]].term["span"]["line"]}
        # the `next()` call that drives this loop (not one of a nested loop)
        next_bbs = [b for b in own if (callee_of(fn.blocks[b].term) or {}).get("name") == "next"
                    and ((callee_of(fn.blocks[b].term) or {}).get("trait") or "").endswith("Iterator")]
        exhausted = set()
        some_targets = set()
        for (e, fact) in v.facts:
            if e[0] in own and fact[0] == "succ" and is_call(fact[1], name="next"):
                site = fact[1][3]
                if site[-1] in next_bbs:
                    if not fact[2] and e[1] not in lp["body"]:
                        exhausted.add(e)
                    if fact[2]:
                        some_targets.add(e[1])
        exits = loop_exits(fn, lp)
        cls = []
        after = set()
        for e in exhausted:
            after |= fn.reach(e[1], stop=frozenset({lp["header"]}))
        after -= lp["body"]
        effectful = {b for b in after if fn.blocks[b].term["k"] == "call" or b in retw}
        returns = {b for b in fn.normal_blocks() if fn.blocks[b].term["k"] == "return"}
        for e in exits:
            if e in exhausted:
                cls.append((e, "exhausted"))
            elif not fn.reach(e[1]) & returns:
                cls.append((e, "diverge"))
            elif err_only_region(fn, e[1], stop=frozenset({lp["header"]})) and \
                    not ((fn.reach(e[1], stop=frozenset({lp["header"]})) - lp["body"]) & effectful):
                # returns an error without running any of the code that follows the loop
                cls.append((e, "error"))
            elif _exit_refuses_by_flag(fn, v, e, lp, effectful):
                # `found = true; break; .. if found { return Err(..) }`: the exit sets a flag whose test refuses
                cls.append((e, "error"))
            else:
                cls.append((e, "break"))
        info["exits"] = cls
        info["iter"] = bool(next_bbs)
        info["iter_term"] = None
        for b in next_bbs:
            info["iter_term"] = v.cx.operand(fn.blocks[b].term["args"][0])
        if len(next_bbs) == 2:
            # two iterators stepped once per iteration, the loop ending when either runs out (`for a in A { let Some(b) =
            # it.next() else { break }; .. }`): a lock-step traversal, the same as `A.zip(B)`
            rpo = fn.rpo()
            na, nb = sorted(next_bbs, key=lambda b: rpo.get(b, 0))
            some_b = {e for (e, fact) in v.facts if fact[0] == "succ" and fact[2] and is_call(fact[1], name="next")
                      and fact[1][3] and fact[1][3][-1] == nb and e[0] in own}
            none_b = {e for (e, fact) in v.facts if fact[0] == "succ" and not fact[2] and is_call(fact[1], name="next")
                      and fact[1][3] and fact[1][3][-1] == nb and e[0] in own}
            some_a = {e[1] for (e, fact) in v.facts if fact[0] == "succ" and fact[2] and is_call(fact[1], name="next")
                      and fact[1][3] and fact[1][3][-1] == na and e[0] in own}
            _, back = body_reach(fn, lp, list(some_a), removed_edges=some_b | none_b) if some_b and some_a else (None, True)
            between = fn.reach(na, stop=frozenset({nb}), removed=frozenset()) & own
            quiet = all(fn.blocks[b].term["k"] != "call" or b in (na, nb) or
                        (callee_of(fn.blocks[b].term) or {}).get("name") in ("deref", "deref_mut", "as_ref", "borrow", "clone")
                        for b in between if nb in fn.reach(b) and b != nb)
            if some_b and none_b and not back and all(e in exhausted for e in none_b) and quiet:
                ita = v.cx.operand(fn.blocks[na].term["args"][0])
                itb = v.cx.operand(fn.blocks[nb].term["args"][0])
                info["lockstep"] = (ita, itb)
                info["iter_term"] = ("call", "core::iter::traits::iterator::Iterator::zip", (ita, itb), None, None)
                some_targets = {e[1] for e in some_b}
                info["some_targets"] = some_targets
        # skippable accumulations (writes that sit in a nested loop belong to that loop)
        acc = {}
        for l, bs in accumulation_sites(fn, lp).items():
            mine = {b for b in bs if b in own}
            if mine:
                acc[l] = bs
        entry = list(some_targets) or [lp["header"]]
        skips = {}
        for l, bs in acc.items():
            seen = set()
            todo = [x for x in entry if x not in bs]
            hit = False
            while todo and not hit:
                n = todo.pop()
                if n in seen:
                    continue
                seen.add(n)
                for (t, lab) in fn.succs()[n]:
                    if t == lp["header"] and n != lp["header"]:
                        hit = True
                        break
                    if t in lp["body"] and t not in bs and t not in seen:
                        todo.append(t)
            skips[l] = hit
        info["acc"] = acc
        info["skippable"] = skips
        info["some_targets"] = some_targets
        out.append(info)
    return out


def body_reach(fn, lp, starts, removed_blocks=frozenset(), removed_edges=frozenset()):
    """blocks of the loop body reachable from starts without leaving the body; also whether the header is re-entered"""
    seen = set()
    todo = [x for x in starts if x not in removed_blocks]
    back = False
    while todo:
        n = todo.pop()
        if n in seen:
            continue
        seen.add(n)
        for (t, lab) in fn.succs()[n]:
            if (n, t, lab) in removed_edges:
                continue
            if t == lp["header"]:
                back = True
                continue
            if t in lp["body"] and t not in removed_blocks and t not in seen:
                todo.append(t)
    return seen, back


def reductions(ctx, key, adaptors=None, skip=None, brk=None, min_loops=0, rule="RED", exclude_loops=(), labels=None, fn=None, view=None,
               only_loops=None, may_be_absent=()):
    """Engine D on one function: (ii) the truncating/reordering adaptors are exactly the reviewed ones (those listed in
    may_be_absent need not occur: a `zip` written as a lock-step loop, its pairing being decided by a rule of its own);
    (iii) no iteration can skip an accumulation and no exit other than exhaustion / an error return leaves a loop,
    except under the reviewed conditions (fact matchers).
    skip: {variable name: fact matcher for edges on which skipping is allowed}
    brk:  list of fact matchers for edges under which a non-error exit is allowed"""
    f = fn if fn is not None else ctx.anchor(key)
    if not f:
        return None
    adaptors = adaptors or {}
    skip = skip or {}
    brk = brk or []
    inv = {k: n for k, n in adaptor_inventory(f).items() if k not in LOOKUPS}
    same = inv == adaptors or (all(inv.get(k, 0) == n for k, n in adaptors.items() if k not in may_be_absent) and
                               all(k in adaptors and n <= adaptors[k] for k, n in inv.items()))
    ctx.check(same, rule, key, "adaptors",
              "the set of element-dropping/reordering adaptors in %s is %s, reviewed set is %s: a reduction over "
              "participants/coefficients/items may no longer cover every element (or its order changed)"
              % (key, inv, adaptors), f.loc, {"found": inv})
    v = view if view is not None else FnView.get(ctx.prog, f)
    names = dict(f.var_names())
    names.update(labels or {})      # accumulators identified structurally by the caller: local -> role name
    lr = [lp for lp in loop_report(ctx.prog, f, v) if lp["line"] not in exclude_loops and (only_loops is None or only_loops(lp))]
    if len(lr) < min_loops:
        # written without explicit loops (iterator chains): the semantic rules of the property decide coverage on the unified
        # views; only the adaptor inventory applies here
        ctx.note(rule, key, "no explicit loop (iterator form): %d loops, %d when reviewed" % (len(lr), min_loops))
    for n, lp in enumerate(sorted(lr, key=lambda x: x["header"])):
        tag = "loop%d" % n
        # exits
        for (e, c) in lp["exits"]:
            if c != "break":
                continue
            allowed = False
            for m in brk:
                edges = exclusive(v.facts, m)
                if e in edges:
                    allowed = True
                    break
                seen, _ = body_reach(f, lp, list(lp["some_targets"]) or [lp["header"]], removed_edges=edges)
                if e[0] not in seen:
                    allowed = True
                    break
            ctx.check(allowed, rule, key, tag + ":early-exit",
                      "a path leaves the loop at %s before the sequence is exhausted without returning an error "
                      "(not under a reviewed condition): elements after it are not processed"
                      % loc_of(f, e[0]), loc_of(f, e[0]))
        # skips
        for l, can_skip in lp["skippable"].items():
            nm = names.get(l, str(l))
            if not can_skip:
                ctx.ok(rule, key, "%s:%s:every-iteration" % (tag, nm))
                continue
            m = skip.get(nm, skip.get(l))
            ok = False
            if m is not None:
                edges = {ed for (ed, fact) in v.facts if m(fact) == "pass"}
                _, back = body_reach(f, lp, list(lp["some_targets"]) or [lp["header"]],
                                      removed_blocks=lp["acc"][l], removed_edges=edges)
                ok = not back
            ctx.check(ok, rule, key, "%s:%s:every-iteration" % (tag, nm),
                      "an iteration of the loop at %s can reach the next iteration without updating `%s` (other than "
                      "under the reviewed condition): some element is left out of the reduction"
                      % (loc_of(f, lp["header"]), nm), loc_of(f, lp["header"]))
    return lr


def forall_loop(ctx, fn, rule, what, src_pred, mechanisms, sinks=None, require_fail_err=True):
    """A per-element refusal, in whatever form the traversal is written (see _forall): reports and returns the element
    context dict(kind, fn, view, item, body, iter_term, edges) or None."""
    v = FnView.get(ctx.prog, fn)
    sinks = ok_sinks(fn) if sinks is None else sinks
    r, why = _forall(ctx.prog, v, src_pred, mechanisms, sinks, require_fail_err, 0)
    if r is not None:
        ctx.ok(rule, fn.key, what, {"form": r["kind"], "in": r["fn"].key, "pass_edges": sorted(r["edges"])[:4]})
        return r
    ctx.violation(rule, fn.key, what, "per-element refusal '%s' does not hold for every element: %s" % (what, why), fn.loc)
    return None


CONSUMERS = {"map": 2, "try_for_each": 2, "try_fold": 3, "all": 2, "any": 2, "for_each": 2, "fold": 3, "find": 2, "position": 2}
# `find(p)` / `position(p)` are Some exactly when `any(p)` is true: the closure's `true` stops the traversal, None means "every
# element gave false"


def _forall(prog, v, src_pred, mechanisms, sinks, require_fail_err, depth):
    """Every element of a collection matching src_pred passes a check before any sink is reached.  Forms:
       (loop)     `for x in S { check(x)?; .. }`: every completed iteration crosses a PASS edge of a mechanism whose FAIL side
                  refuses, no early exit, and the exhaustion edge separates entry from the sinks;
       (closure)  `S.iter().map(|x| { check(x)?; Ok(..) }).collect::<Result<_, _>>()?`, `try_for_each`, `try_fold`, `all`, `any`:
                  every continuing return of the closure crosses a PASS edge, and the success edge of the consumer's result
                  separates entry from the sinks;
       (helper)   `validate(..)?` whose success edge separates entry from the sinks, with one of the forms inside the helper
                  (seen with the call's arguments).
       Mechanisms are functions item-matcher -> fact-matcher."""
    fn = v.fn
    found = []
    # ---- loop form
    for lp in loop_report(prog, fn, v):
        it = lp["iter_term"]
        if it is None or not (src_pred(it[1] if it[0] == "iter" else it) or src_pred(strip_iter_calls(it))):
            continue
        item = lambda t, it=it: isinstance(t, tuple) and t[0] == "some" and is_call(t[1], name="next") and t[1][2][0] == it
        edges = set()
        for name, mk in mechanisms:
            m = mk(item)
            for (e, fact) in v.facts:
                if e[0] not in lp["body"] or m(fact) != "pass":
                    continue
                fails = [e2 for (e2, f2) in v.facts if e2[0] == e[0] and m(f2) == "fail"]
                if require_fail_err and not all(fail_refuses(fn, v, e2) for e2 in fails):
                    continue
                edges.add(e)
        if edges:
            edges = flag_carried(fn, v, edges, starts=tuple(lp["some_targets"]) or (lp["header"],), within=lp["body"],
                                 fail_ok=(lambda e: fail_refuses(fn, v, e)) if require_fail_err else None)
        _, back = body_reach(fn, lp, list(lp["some_targets"]), removed_edges=edges)
        early = [e for (e, c) in lp["exits"] if c == "break"]
        exh = {e for (e, c) in lp["exits"] if c == "exhausted"}
        # an exit classified "error" reaches (feasibly) only error returns: it cannot lead to a sink
        bypass = sep(fn, exh | {e for (e, c) in lp["exits"] if c == "error"}, sinks)
        found.append((lp, back, early, bypass, edges))
        if not back and not early and not bypass and edges:
            r = dict(lp)
            r.update({"kind": "loop", "fn": fn, "view": v, "item": item, "edges": edges})
            return r, None
    # ---- closure form
    for (bb, t, ci) in fn.calls():
        if not ci or ci.get("name") not in CONSUMERS or not (ci.get("trait") or "").endswith("Iterator"):
            continue
        a = v.call_args(bb)
        k = CONSUMERS[ci["name"]]
        clo = a[-1] if a and a[-1][0] == "closure" else None
        if clo is None:
            continue
        sv = seq_view(a[0])
        if sv is None or sv["adaptors"] or not (src_pred(sv["base"]) or src_pred(strip_iter_calls(a[0]))):
            continue
        cf = prog.fns.get(clo[1])
        if cf is None or not cf.has_body:
            continue
        sub = {1: ("agg", "tuple", None, None, tuple((str(n), val) for n, val in enumerate(clo[2]))), k: ITEM}
        if k == 3:
            sub[2] = ACC
        cv = FnView(prog, cf, sub, v.frames + (("clo", clo[1]),))
        item = lambda x: x == ITEM
        edges = set()
        for name, mk in mechanisms:
            m = mk(item)
            for (e, fact) in cv.facts:
                if m(fact) != "pass":
                    continue
                fails = [e2 for (e2, f2) in cv.facts if e2[0] == e[0] and m(f2) == "fail"]
                if require_fail_err and not all(closure_refuses(cf, e2, ci["name"], prog) for e2 in fails):
                    continue
                edges.add(e)
        if edges:
            edges = flag_carried(cf, cv, edges, fail_ok=(lambda e: closure_refuses(cf, e, ci["name"], prog)) if require_fail_err else None)
        cont = closure_continue_sinks(prog, cf, cv, ci["name"], [mk(item) for _, mk in mechanisms])
        cont = {b_ for b_ in cont if not returned_flag_guarded(cf, cv, edges, b_, ci["name"])}
        from .guards import returns_result as _rr
        if _rr(cf) and cont:
            # a Result returned as it is (`lookup.ok_or(e).map(|x| ..)`): Ok only if the lookup succeeded
            cont = cont - guarded_sinks(prog, cv, [(n_, mk(item)) for n_, mk in mechanisms], cont, require_fail_err)
        if not edges and cont:
            continue
        if sep(cf, edges, cont):
            found.append((None, True, [], set(), edges))
            continue
        # the consumer's success gates the sinks
        gate = set()
        for (e, fa) in v.own_facts:
            if fa[0] == "succ" and fa[2] and mentions(fa[1], lambda s: s[0] == "closure" and s[1] == clo[1]):
                gate.add(e)
            if fa[0] == "cond" and fa[1] in ("all", "any") and fa[3] is not None and fa[3][0] == "closure" and fa[3][1] == clo[1] \
                    and fa[4] == (fa[1] == "all"):
                gate.add(e)
            if ci["name"] in ("find", "position") and fa[0] == "succ" and not fa[2] and \
                    mentions(fa[1], lambda s: s[0] == "closure" and s[1] == clo[1]):
                gate.add(e)         # the None edge: no element made the predicate true
        if ci["name"] in ("find", "position"):
            gate = {e for e in gate if not any(e2 == e and fa[0] == "succ" and fa[2] for (e2, fa) in v.own_facts)}
        guarded = set()
        for (b, kk, rv) in ret_writes(fn):
            if b in sinks and kk in ("call", "other"):
                T = v.cx.call(rv, v.cx.site(b)) if kk == "call" else v.cx.rvalue(rv, (fn.key, b, 0))
                if mentions(T, lambda s: s[0] == "closure" and s[1] == clo[1]):
                    guarded.add(b)     # the consumer's own result is what is returned
        if sep(fn, gate, set(sinks) - guarded):
            found.append((None, False, [], {bb}, edges))
            continue
        return {"kind": "closure:" + ci["name"], "fn": cf, "view": cv, "item": item, "body": set(cf.normal_blocks()),
                "iter_term": a[0], "edges": edges, "header": None, "some_targets": {0}, "consumer": (fn, bb)}, None
    # ---- helper form
    if depth < LIFT_DEPTH:
        for (e, fa) in v.own_facts:
            if not (fa[0] == "succ" and fa[2]):
                continue
            H, Y = helper_call(prog, fn, fa[1])
            if H is None or sep(fn, {e}, sinks):
                continue
            hv = FnView(prog, H, {i + 1: x for i, x in enumerate(Y[2])}, v.frames + (Y[3],))
            r, why = _forall(prog, hv, src_pred, mechanisms, success_sinks(H), require_fail_err, depth + 1)
            if r is not None:
                r["via"] = r.get("via", ()) + (H.key,)
                return r, None
        for (b, kk, rv) in ret_writes(fn):
            if b in sinks and kk == "call" and set(sinks) == {b}:
                T = v.cx.call(rv, v.cx.site(b))
                H, Y = helper_call(prog, fn, T)
                if H is not None:
                    hv = FnView(prog, H, {i + 1: x for i, x in enumerate(Y[2])}, v.frames + (Y[3],))
                    r, why = _forall(prog, hv, src_pred, mechanisms, success_sinks(H), require_fail_err, depth + 1)
                    if r is not None:
                        return r, None
    why = "no traversal of the expected collection was found"
    if found:
        lp, back, early, bypass, edges = found[0]
        why = ("an iteration can complete without passing the check" if back else
               "the loop can be left early without an error" if early else
               "the result can be produced without running the traversal to exhaustion" if bypass else
               "the check was not found in the traversal")
    return None, why


def returned_flag_guarded(cf, cv, edges, b, consumer):
    """a per-element closure returns a boolean flag (possibly negated): the return lets the traversal continue only for one truth
    value of the flag; guarded if every definition of the flag that can give that value sits behind a PASS edge"""
    if consumer not in ("all", "any"):
        return False
    for (bb, k, rv) in ret_writes(cf):
        if bb != b or k != "other":
            continue
        T = cv.cx.rvalue(rv, (cf.key, bb, 0))
        core, pos = pred_core(T)
        if not (core[0] == "phi" and core[1][0] == cf.key):
            return False
        want_ret = (consumer == "all")           # the returned value that lets the traversal continue
        want_flag = want_ret if pos else (not want_ret)
        ds = [d for d in cf.defs().get(core[1][1], []) if d[0] in ("assign", "call")]
        cons = []
        for d in ds:
            if d[0] == "assign" and d[3]["k"] == "use" and "const" in d[3]["op"] and "bits" in d[3]["op"]["const"]:
                if (d[3]["op"]["const"]["bits"] != "0") == want_flag:
                    cons.append(d[1])
            else:
                cons.append(d[1])
        r = cf.reach(0, removed=frozenset(edges))
        return bool(ds) and bool(edges) and not any(x in r for x in cons)
    return False


def closure_refuses(cf, edge, consumer, prog=None):
    """the FAIL side of a check inside a per-element closure refuses: returns only Err (Result closures) / the value that
    stops the consumer (false for all, true for any)"""
    from .guards import returns_result
    if returns_result(cf):
        return fail_is_error(cf, edge)
    r = cf.reach(edge[1])
    ws = [(b, k, rv) for (b, k, rv) in ret_writes(cf) if b in r]
    if not ws:
        return False
    want = "0" if consumer == "all" else "1"
    for (b, k, rv) in ws:
        if k == "other" and rv.get("k") == "use" and "const" in rv["op"] and rv["op"]["const"].get("bits") == want:
            continue
        # a returned flag (possibly negated) whose definitions on this side are all the same constant
        ok_flag = False
        if k == "other" and prog is not None:
            T = TermCx(prog, cf).rvalue(rv, (cf.key, b, 0))
            if T is not None:
                core, pos = pred_core(T)
                if core[0] == "phi" and core[1][0] == cf.key:
                    before = cf.reach(edge[1], stop=frozenset({b}))
                    ds = [d for d in cf.defs().get(core[1][1], []) if d[0] in ("assign", "call") and d[1] in before]
                    vals = set()
                    for d in ds:
                        if d[0] == "assign" and d[3]["k"] == "use" and "const" in d[3]["op"] and "bits" in d[3]["op"]["const"]:
                            vals.add(d[3]["op"]["const"]["bits"] != "0")
                        else:
                            vals.add(None)
                    cut = frozenset((p, d[1]) for d in ds for (p, _l) in cf.preds().get(d[1], ()))
                    if ds and len(vals) == 1 and None not in vals and (b not in cf.reach(edge[1], removed=cut) or edge[1] in {d[1] for d in ds}):
                        flag = next(iter(vals))
                        ret = flag if pos else (not flag)
                        ok_flag = (ret == (want == "1"))
        if not ok_flag:
            return False
    return True



def closure_continue_sinks(prog, cf, cv, consumer, matchers):
    """blocks of a per-element closure that return a value letting the traversal continue (Ok / true for all / false for any),
    except returns whose value is itself a recognised check (`|id| shares.contains_key(id)`)"""
    from .guards import returns_result, norm_cond
    if returns_result(cf):
        return ok_sinks(cf)
    out = set()
    stop = "0" if consumer == "all" else "1"
    for (b, k, rv) in ret_writes(cf):
        if k == "other" and rv.get("k") == "use" and "const" in rv["op"] and rv["op"]["const"].get("bits") == stop:
            continue
        T = cv.cx.call(rv, cv.cx.site(b)) if k == "call" else cv.cx.rvalue(rv, (cf.key, b, 0)) if k == "other" else None
        if T is not None and consumer in ("all", "any", "find", "position"):
            kind, a_, b_, pos = norm_cond(T)
            fa = ("cond", kind, a_, b_, pos == (consumer == "all"))
            if any(m(fa) == "pass" for m in matchers):
                continue
        out.add(b)
    return out


# ---------------- share / verifying-share consistency (CODEP decided on terms) ----------------

def unwrap_newtypes(t):
    """peel newtype aggregates VerifyingShare{0: SerializableElement{0: x}} -> x"""
    while isinstance(t, tuple) and t and t[0] == "agg" and t[1] == "adt" and len(t[4]) == 1:
        t = t[4][0][1]
    return t


def strip_newtype_fields(t):
    """x.signing_share.0.0 -> x.signing_share ; vk.element.0 -> vk"""
    while isinstance(t, tuple) and t and t[0] == "field" and t[3] in ("0", "element") and \
            (t[2] or "").rsplit("::", 1)[-1] in ("SigningShare", "VerifyingShare", "SerializableScalar",
                                                  "SerializableElement", "VerifyingKey", "Randomizer",
                                                  "CoefficientCommitment", "NonceCommitment", "Nonce", "Identifier", "Challenge",
                                                  "BindingFactor", "GroupCommitment", "GroupCommitmentShare", "Delta", "Sigma"):
        t = t[1]
    return t


def gen_times(t, scalar_pred):
    """G * s"""
    return (is_call(t, name="mul") and len(t[2]) == 2 and
            (is_call(t[2][0], name="generator") or (t[2][0][0] == "const" and "GENERATOR" in str(t[2][0][2])))
            and scalar_pred(t[2][1]))


def get_field(v, name):
    """field `name` of a struct-valued term (aggregate, partially overwritten value, or opaque)"""
    if v[0] == "agg" and v[1] == "adt":
        d = dict(v[4])
        if name in d:
            return d[name]
    if v[0] == "updated":
        for k, val in v[2]:
            if k == (name,):
                return val
        return get_field(v[1], name)
    if v[0] == "mut":
        inner = get_field(v[1], name)
        ops = tuple(("op", o[1], o[2], o[3], o[4][1:]) for o in v[2] if len(o) > 4 and o[4] and o[4][0] == name)
        return ("mut", inner, ops) if ops else inner
    return ("field", v, None, name)


def same_field_owner(s, y, sname, yname):
    s, y = strip_newtype_fields(unwrap_newtypes(s)), strip_newtype_fields(unwrap_newtypes(y))
    return (s[0] == "field" and y[0] == "field" and s[3] == sname and y[3] == yname and base_of(s[1]) == base_of(y[1]))


LINKED_FIELDS = [("signing_share", "verifying_share"), ("randomizer", "randomizer_element")]


def linked(s, y):
    """y is the public image of s: y = G*s, or (x.signing_share, x.verifying_share) of one well-formed x, or
    (p.randomizer, p.randomizer_element), or sums/negations of linked pairs"""
    s0, y0 = unwrap_newtypes(s), unwrap_newtypes(y)
    if gen_times(y0, lambda u: unwrap_newtypes(u) == s0 or strip_newtype_fields(unwrap_newtypes(u)) == strip_newtype_fields(s0)):
        return True
    for a, b in LINKED_FIELDS:
        if same_field_owner(s0, y0, a, b):
            return True
    for op in ("add", "sub"):
        if is_call(s0, name=op) and is_call(y0, name=op) and len(s0[2]) == 2 and len(y0[2]) == 2:
            if linked(s0[2][0], y0[2][0]) and linked(s0[2][1], y0[2][1]):
                return True
            if op == "add" and linked(s0[2][0], y0[2][1]) and linked(s0[2][1], y0[2][0]):
                return True
    if is_call(s0, name="neg") and is_call(y0, name="neg"):
        return linked(s0[2][0], y0[2][0])
    return False


def key_package_consistent(ctx, fn, kp_term, rule="CODEP", what="verifying_share==G*signing_share"):
    S = get_field(kp_term, "signing_share")
    Y = get_field(kp_term, "verifying_share")
    ok = linked(S, Y)
    ctx.check(ok, rule, fn.key, what,
              "the returned KeyPackage's verifying share is not the public image of its signing share: signing share "
              "= %s, verifying share = %s" % (fmt(S)[:300], fmt(Y)[:300]), fn.loc,
              {"signing_share": fmt(S)[:300], "verifying_share": fmt(Y)[:300]})
    return ok


# ---------------- two-armed values selected by a boolean predicate ----------------

def pred_core(t):
    """strip Into::into / Not wrappers of a boolean predicate term -> (core term, positive?)"""
    pos = True
    while isinstance(t, tuple) and t:
        if (is_call(t, name="into") or (is_call(t, name="from") and (t[4] == "bool" or "bool" in str(t[4] or "")))) and len(t[2]) == 1:
            t = t[2][0]
        elif is_call(t, name="not") and len(t[2]) == 1:
            pos = not pos
            t = t[2][0]
        elif t[0] == "un" and t[1] == "Not":
            pos = not pos
            t = t[2]
        else:
            break
    return t, pos


def phi_arms(fn, v, local):
    """For a local assigned once in each arm of a two-way boolean branch: -> (predicate core term, {True: term, False: term})
    where the key is the truth value of the *core* predicate.  None if the shape is different."""
    ds = [d for d in fn.defs().get(local, []) if d[0] in ("assign", "call")]
    if len(ds) != 2:
        return None
    blocks = [d[1] for d in ds]
    vals = []
    for d in ds:
        vals.append(v.cx.rvalue(d[3], (fn.key, d[1], d[2])) if d[0] == "assign" else v.cx.call(d[2], (fn.key, d[1])))
    by_switch = {}
    for (e, fa) in v.facts:
        if fa[0] == "cond" and fa[1] == "other":
            by_switch.setdefault(e[0], []).append((e, fa))
    for sw, efs in by_switch.items():
        if len(efs) != 2:
            continue
        (e1, f1), (e2, f2) = efs
        r1, r2 = fn.reach(e1[1]), fn.reach(e2[1])
        x1, x2 = r1 - r2, r2 - r1
        for (ba, va), (bb_, vb) in (((blocks[0], vals[0]), (blocks[1], vals[1])), ((blocks[1], vals[1]), (blocks[0], vals[0]))):
            if ba in x1 and bb_ in x2:
                core, pos = pred_core(f1[2])
                t1 = f1[4] if pos else not f1[4]
                return core, {t1: va, (not t1): vb}
    return None


def local_of_operand(op):
    p = op.get("move") or op.get("copy")
    return p["l"] if p and not [e for e in p["p"] if e != "*"] else None


def trace_local(fn, l, depth=6):
    """follow plain copies / reborrows back to the local that has the interesting definitions"""
    while depth > 0:
        ds = [d for d in fn.defs().get(l, []) if d[0] == "assign"]
        if len(fn.defs().get(l, [])) == 1 and ds and ds[0][3]["k"] in ("use", "ref"):
            rv = ds[0][3]
            p = rv["place"] if rv["k"] == "ref" else (rv["op"].get("move") or rv["op"].get("copy"))
            if p is None or [e for e in p["p"] if e != "*"]:
                return l
            l = p["l"]
            depth -= 1
        else:
            return l
    return l


def defs_by_arm(fn, v, local, matcher, stop=frozenset()):
    """classify the definitions of `local` by the arm ('pass' / 'fail' edges of the fact matcher) of the switch that
    exclusively reaches them (regions computed without crossing `stop` blocks, e.g. a loop header).
    -> {'pass': [terms], 'fail': [terms], None: [terms reached by both / neither]}"""
    ds = [d for d in fn.defs().get(local, []) if d[0] in ("assign", "call")]
    edges = {"pass": set(), "fail": set()}
    for (e, fa) in v.facts:
        r = matcher(fa)
        if r in edges:
            edges[r].add(e)
    reach = {k: set().union(*[fn.reach(e[1], stop=stop) for e in es]) if es else set() for k, es in edges.items()}
    out = {"pass": [], "fail": [], None: []}
    cx = TermCx(v.prog, fn)
    cx.busy.add(local)   # references to the previous value of `local` become loopvar(local)
    for d in ds:
        t = cx.rvalue(d[3], (fn.key, d[1], d[2])) if d[0] == "assign" else cx.call(d[2], (fn.key, d[1]))
        inp, inf = d[1] in reach["pass"], d[1] in reach["fail"]
        out["pass" if inp and not inf else "fail" if inf and not inp else None].append(t)
    return out


# ---------------- thin ciphersuite wrappers: sibling agreement ----------------

SUITE_CRATES = ["frost_ed25519", "frost_ed448", "frost_p256", "frost_ristretto255", "frost_secp256k1", "frost_secp256k1_tr"]


WRAPPER_ABSENT = {("frost_secp256k1_tr", "aggregate_custom")}


def strip_sites(t):
    """structural skeleton of a term: call sites and self types removed"""
    if not isinstance(t, tuple):
        return t
    if t and t[0] == "call":
        return ("call", t[1], tuple(strip_sites(x) for x in t[2]))
    if t and t[0] == "op":
        return ("op", t[1], tuple(strip_sites(x) for x in t[2]))
    return tuple(strip_sites(x) for x in t)


def wrappers(ctx, rel_names):
    """for each relative path (e.g. 'keys::dkg::part1'): all six ciphersuite crates define it, their bodies are
    structurally identical, and the body forwards the parameters in order to the frost-core function of that name"""
    if ctx.core_only:
        return
    P = ctx.prog
    for rel in rel_names:
        terms_ = {}
        for c in SUITE_CRATES:
            f = P.fns.get("%s::%s" % (c, rel))
            if f is None or not f.has_body:
                if (c, rel) in WRAPPER_ABSENT:
                    continue  # reviewed: the Taproot crate exposes no aggregate_custom wrapper
                ctx.violation("WRAP", "%s::%s" % (c, rel), "anchor-missing", "ciphersuite wrapper %s::%s not found" % (c, rel))
                continue
            t = FnView.get(P, f).cx.local(0)
            terms_[c] = strip_sites(t)
        if len(terms_) < 2:
            continue
        ref = terms_.get("frost_ed25519") or list(terms_.values())[0]
        odd = [c for c, t in terms_.items() if t != ref]
        ctx.check(not odd, "WRAP", rel, "six-wrappers-agree",
                  "the ciphersuite wrappers `%s` differ structurally: %s deviate(s) from frost_ed25519's (%s vs %s)"
                  % (rel, odd, fmt(terms_[odd[0]])[:120] if odd else "", fmt(ref)[:120]))
        # forwarding shape of the reference
        name = rel.rsplit("::", 1)[-1]
        f = P.fns.get("frost_ed25519::" + rel)
        n = f.arg_count if f else 0
        # the call itself, not the core function's body: evaluate the wrapper without inlining
        flat = strip_sites(TermCx(P, f, inline=False).local(0)) if f else ("unknown",)
        ok = flat[0] == "call" and flat[1] == "frost_core::" + rel and flat[2] == tuple(("arg", i + 1) for i in range(n))
        ref = flat
        ctx.check(ok, "WRAP", rel, "forwards-parameters-in-order",
                  "ciphersuite wrapper `%s` does not forward its parameters, in order, to the frost-core function of the "
                  "same name: %s" % (rel, fmt(ref)[:160]))


# ---------------- refusal inventory: the set of ways a function can return Err ----------------

def carried_error(prog, T):
    """the error value of a Result built as `cond.then_some(E).map_or(Ok(()), Err)` / `cond.then(|| E).map_or(Ok(()), Err)`
    (Err(E) exactly when cond holds): the term E, else None"""
    from .guards import map_or_source
    mo = map_or_source(T)
    if mo is None or mo[1]:
        return None
    opt = mo[0]
    if is_call(opt, name="then_some") and "bool" in opt[1] and len(opt[2]) == 2:
        return opt[2][1]
    if is_call(opt, name="then") and "bool" in opt[1] and len(opt[2]) == 2:
        return apply_callable(prog, opt[2][1], [])
    return None


def err_values(prog, f, v):
    """the error values f can return that are built in f itself: `Err(E)` writes and Results carrying their error as a value"""
    out = []
    for (b, k, rv) in ret_writes(f):
        if k == "err":
            out.append(v.cx.operand(rv["ops"][0]))
        elif k in ("call", "other"):
            T = v.cx.call(rv, v.cx.site(b)) if k == "call" else v.cx.rvalue(rv, (f.key, b, 0))
            e = carried_error(prog, T) if T is not None else None
            if e is not None:
                out.append(e)
    return out


def err_inventory(prog, fn, table_keys=(), depth=0):
    """the ways fn can return Err, normalised so that equivalent spellings agree:
       'V:<Variant>'  an explicit refusal (`return Err(E::V)`, `x.ok_or(E::V)?`, `None => Err(E::V)`), multiset;
       '?:<callee>'   an error that originates in a workspace callee's failure (`callee(..)?`, or an Err arm of a match
                      on its result, whatever error value is built there), set;
    errors from private helpers that are not themselves listed are expanded into the helper's own inventory."""
    # callee names must not depend on the inlining policy: use non-inlined terms here
    class _V:
        pass
    v = _V()
    v.cx = TermCx(prog, fn, inline=False)
    v.facts = branch_facts(prog, fn, v.cx)
    inv = {}

    def add(k, n=1):
        inv[k] = inv.get(k, 0) + n

    def source_call(t):
        while isinstance(t, tuple) and t and t[0] in ("map_err", "errval", "residual", "ok", "try"):
            t = t[1]
        return t

    def from_callee(src):
        """'?:name' (expanding unlisted workspace helpers) for a failing workspace call, else None"""
        if not (isinstance(src, tuple) and src and src[0] == "call"):
            return None
        H = prog.fns.get(src[1])
        name = src[1].rsplit("::", 1)[-1]
        if H is not None and (H.j.get("output") or "").startswith("core::option::Option<"):
            return None      # a look-up returning Option: the refusal is the caller's own (named by its variant)
        if H is not None and H.has_body and H.crate.startswith("frost"):
            if src[1] not in table_keys and H.j.get("vis", "") != "Public" and depth < 2 and not H.j.get("impl_trait"):
                for k, n in err_inventory(prog, H, table_keys, depth + 1).items():
                    add(k, n)
                return True
            add("?:" + name)
            return True
        if src[1].lstrip("<").startswith("frost") or " as frost" in src[1]:   # trait method on the ciphersuite / unresolved workspace call
            add("?:" + name)
            return True
        return None

    # failure arms: blocks reachable only through the failure edge of a fallible workspace call
    fail_region = {}
    fail_size = {}
    for (e, fa) in v.facts:
        if fa[0] == "succ" and not fa[2]:
            src = source_call(fa[1])
            if isinstance(src, tuple) and src and src[0] == "call":
                others = [e2 for (e2, f2) in v.facts if e2[0] == e[0] and f2[0] == "succ" and f2[2]]
                # (without re-entering the test: in a loop the failure arm is reachable again from the success side)
                reach_ok = set().union(*[fn.reach(e2[1], stop=frozenset({e[0]})) - {e[0]} for e2 in others]) if others else set()
                if src[1].endswith("Iterator::next"):
                    continue        # an exhausted iterator is not a failing callee
                region = fn.reach(e[1]) - reach_ok
                for b in region:
                    if b not in fail_region or len(region) < fail_size[b]:
                        fail_region[b] = src      # the innermost failure arm wins
                        fail_size[b] = len(region)
    for (b, k, w) in ret_writes(fn):
        if k == "err":
            t = v.cx.operand(w["ops"][0])
            if b in fail_region and from_callee(fail_region[b]):
                continue
            if t[0] == "agg":
                add("V:" + str(t[3]))
            elif (is_call(t, name="into") or is_call(t, name="from")) and t[2] and t[2][0][0] == "agg":
                add("V:" + str(t[2][0][3]))
            else:
                add("V:?")
        elif k == "residual":
            t = v.cx.call(w, (fn.key, b))
            src = source_call(t)
            ce = carried_error(prog, t[1] if t[0] in ("residual", "try") else t) or carried_error(prog, src)
            if isinstance(src, tuple) and src and src[0] == "ok_or":
                e = src[2]
                add("V:" + (str(e[3]) if e[0] == "agg" else "?"))
            elif ce is not None:
                add("V:" + (str(ce[3]) if ce[0] == "agg" else "?"))
            elif from_callee(src):
                pass
            elif isinstance(src, tuple) and src and src[0] == "call" and not (src[1].lstrip("<").startswith("frost") or " as frost" in src[1]) and \
                    any(x[0] == "closure" and x[1] in prog.fns for x in subterms(src)):
                # `iter.map(|x| { ..? }).collect::<Result<_, _>>()?`, try_for_each, try_fold: the error comes from the closure
                for x in subterms(src):
                    if x[0] == "closure" and x[1] in prog.fns and prog.fns[x[1]].has_body and depth < 3:
                        for k, n in err_inventory(prog, prog.fns[x[1]], table_keys, depth + 1).items():
                            add(k, n)
            elif isinstance(src, tuple) and src and src[0] == "call":
                add("?:" + src[1].rsplit("::", 1)[-1])
            else:
                add("V:?")
        elif k == "call" and returns_result_fn(fn):
            # a fallible workspace callee in tail position (`helper(..)` returned as it is): its failures are this function's
            t = v.cx.call(w, (fn.key, b))
            src = source_call(t)
            ce = carried_error(prog, t)
            if ce is not None:
                add("V:" + (str(ce[3]) if ce[0] == "agg" else "?"))
            elif isinstance(src, tuple) and src and src[0] == "call" and (src[1].lstrip("<").startswith("frost") or " as frost" in src[1]):
                from_callee(src)
    return inv


def _closure_atoms(prog, clo, depth=0):
    """atomic conditions a per-element predicate closure decides with: its branch conditions and the conditions it returns"""
    from .guards import norm_cond, peel_result
    cf = prog.fns.get(clo[1]) if isinstance(clo, tuple) and clo and clo[0] == "closure" else None
    if cf is None or not cf.has_body:
        return {("closure", clo[1] if isinstance(clo, tuple) and len(clo) > 1 else "?")}
    sub = {1: ("agg", "tuple", None, None, tuple((str(n), val) for n, val in enumerate(clo[2]))), 2: ITEM}
    cv = FnView(prog, cf, sub, (("clo", clo[1]),))
    out = set()
    seen_edges = set()
    for (e, fa) in cv.own_facts:
        if e in seen_edges:
            continue
        if fa[0] == "cond" and fa[1] != "other":
            seen_edges.add(e)
            out.add(("cond", fa[1], fa[2], fa[3]))
        elif fa[0] == "cond":
            core, _pos = pred_core(fa[2]) if isinstance(fa[2], tuple) and fa[2] else (fa[2], True)
            if not (isinstance(core, tuple) and core and core[0] == "phi"):
                seen_edges.add(e)
                out.add(("cond", "other", core, None))
        elif fa[0] == "succ" and not is_call(fa[1], name="next"):
            seen_edges.add(e)
            out.add(("succ", peel_result(fa[1])))
    for (b, k, rv) in ret_writes(cf):
        T = cv.cx.call(rv, cv.cx.site(b)) if k == "call" else cv.cx.rvalue(rv, (cf.key, b, 0)) if k == "other" else None
        if T is None or T[0] == "const" or T[0] == "phi":
            continue
        kind, a, b_, _pos = norm_cond(T)
        out.add(("cond", kind, a, b_) if kind != "other" else ("cond", "other", a, None))
    return out or {("closure", clo[1])}


def err_atoms(prog, fn, table_keys=(), depth=0):
    """{'V:<Variant>': set of atomic refusal conditions}: for every explicit refusal site of fn (as counted by err_inventory), the
    facts on the edges through which control enters the error-only region holding the site — `a || b` refused in one place and
    `a`, `b` refused in two places give the same two atoms; a predicate closure (`all` / `any` / `find`) contributes the conditions
    it decides with.  Only the *number* of distinct atoms per variant is compared with the reviewed number."""
    from .guards import peel_result
    class _V:
        pass
    v = _V()
    v.cx = TermCx(prog, fn, inline=False)
    v.facts = branch_facts(prog, fn, v.cx)
    first_fact = {}
    for (e, fa) in v.facts:
        first_fact.setdefault(e, fa)
    writes = {b for (b, _k, _w) in ret_writes(fn)}
    out = {}

    def atoms_of(site):
        # the region from which this site's write is the only possible outcome, and the edges entering it
        err_only = {q for q in fn.normal_blocks() if (fn.reach(q) & writes) == {site}}
        back = {site}
        todo = [site]
        while todo:
            q = todo.pop()
            for (p, _lab) in fn.preds().get(q, ()):
                if p in err_only and p not in back:
                    back.add(p)
                    todo.append(p)
        res = set()
        for q in back:
            for (p, lab) in fn.preds().get(q, ()):
                if p in err_only:
                    continue
                fa = first_fact.get((p, q, lab))
                if fa is None:
                    res.add(("edge", p, q))
                elif fa[0] == "cond" and fa[1] in ("all", "any") and fa[3] is not None and fa[3][0] == "closure":
                    res |= _closure_atoms(prog, fa[3])
                elif fa[0] == "cond":
                    res.add(("cond", fa[1], fa[2], fa[3], fa[4]))
                elif fa[0] == "succ":
                    X = peel_result(fa[1])
                    clos = [a for a in (X[2] if is_call(X) else ()) if isinstance(a, tuple) and a and a[0] == "closure"]
                    if is_call(X) and X[1].rsplit("::", 1)[-1] in ("find", "position", "find_map") and clos:
                        res |= _closure_atoms(prog, clos[0])
                    else:
                        res.add(("succ", X, fa[2]))
                else:
                    res.add(fa)
        return res

    def add(k, atoms):
        out.setdefault(k, set()).update(atoms)

    def source_call(t):
        while isinstance(t, tuple) and t and t[0] in ("map_err", "errval", "residual", "ok", "try"):
            t = t[1]
        return t

    def helper_of(src):
        if isinstance(src, tuple) and src and src[0] == "call":
            H = prog.fns.get(src[1])
            if H is not None and H.has_body and H.crate.startswith("frost") and src[1] not in table_keys and \
                    H.j.get("vis", "") != "Public" and depth < 2 and not H.j.get("impl_trait") and \
                    not (H.j.get("output") or "").startswith("core::option::Option<"):
                return H
        return None
    for (b, k, w) in ret_writes(fn):
        if k == "err":
            t = v.cx.operand(w["ops"][0])
            var = str(t[3]) if t[0] == "agg" else (str(t[2][0][3]) if (is_call(t, name="into") or is_call(t, name="from")) and t[2] and t[2][0][0] == "agg" else "?")
            add("V:" + var, atoms_of(b))
        elif k in ("residual", "call"):
            t = v.cx.call(w, (fn.key, b))
            src = source_call(t)
            ce = carried_error(prog, t[1] if t[0] in ("residual", "try") else t) or carried_error(prog, src)
            if isinstance(src, tuple) and src and src[0] == "ok_or":
                e = src[2]
                add("V:" + (str(e[3]) if e[0] == "agg" else "?"), atoms_of(b))
            elif ce is not None:
                add("V:" + (str(ce[3]) if ce[0] == "agg" else "?"), atoms_of(b))
            else:
                H = helper_of(src)
                if H is not None:
                    for kk, at in err_atoms(prog, H, table_keys, depth + 1).items():
                        add(kk, {("in", H.key, a) for a in at})
                elif isinstance(src, tuple) and src and src[0] == "call" and depth < 3:
                    for x in subterms(src):
                        if x[0] == "closure" and x[1] in prog.fns and prog.fns[x[1]].has_body:
                            for kk, at in err_atoms(prog, prog.fns[x[1]], table_keys, depth + 1).items():
                                add(kk, {("in", x[1], a) for a in at})
    # failures of unlisted private helpers reached through `match helper(..) { Err(..) => .. }` arms are counted with the helper
    return out


def returns_result_fn(fn):
    from .guards import returns_result
    return returns_result(fn)


def refusal_inventory(ctx):
    """valid inputs are not refused: no listed function has gained a way to return Err (see rules/refusal_table.py)"""
    from .rules.refusal_table import TABLE
    P = ctx.prog
    for key, (exp, props) in sorted(TABLE.items()):
        if ctx.prop not in props:
            continue
        if ctx.core_only and not key.startswith(("frost_core::", "<frost_core::")):
            continue
        f = ctx.anchor(key, rule="REFUSALS")
        if not f:
            continue
        got = err_inventory(P, f, TABLE.keys())
        # explicit refusals: multiset (a second refusal with an existing variant is still an added refusal) — unless the number of
        # distinct atomic refusal conditions has not grown (one check split in two, `a || b` refused in two places);
        # propagated failures: set
        from .rules.refusal_table import ATOMS
        exp_atoms = ATOMS.get(key, {})
        got_atoms = {k: len(a) for k, a in err_atoms(P, f, TABLE.keys()).items()}
        added = {k: n - exp.get(k, 0) for k, n in got.items()
                 if (k.startswith("V:") and n > exp.get(k, 0) and got_atoms.get(k, n) > exp_atoms.get(k, 0)) or (k.startswith("?:") and k not in exp)}
        ctx.check(not added, "REFUSALS", key, "no-added-refusal",
                  "%s has gained refusal site(s) %s beyond the reviewed set %s: inputs the property requires to succeed "
                  "may now be rejected" % (short(key), added, exp), f.loc, {"found": got})


# ---------------- unified view of reductions: loop form and iterator-chain form ----------------

ACC = ("acc",)
ITEM = ("item",)


def subst(t, mapping):
    """replace subterms (exact matches via predicate list [(pred, replacement)])"""
    if not isinstance(t, tuple) or not t:
        return t
    if isinstance(t[0], str):
        for p, r in mapping:
            if p(t):
                return r
        if t[0] == "call":
            return ("call", t[1], tuple(subst(x, mapping) for x in t[2])) + t[3:]
        if t[0] == "op":
            return ("op", t[1], tuple(subst(x, mapping) for x in t[2])) + t[3:]
    return tuple(subst(x, mapping) if isinstance(x, tuple) else x for x in t)


def closure_body(prog, clo, argmap):
    """return term of closure term ('closure', key, captures) with its parameters bound: argmap {2: term, 3: term..}"""
    cf = prog.fns.get(clo[1]) if isinstance(clo, tuple) and clo and clo[0] == "closure" else None
    if cf is None or not cf.has_body:
        return None
    sub = {1: ("agg", "tuple", None, None, tuple((str(n), val) for n, val in enumerate(clo[2])))}
    sub.update(argmap)
    return TermCx(prog, cf, sub, 1).local(0)


def resimp(t):
    """re-run the local simplifications bottom-up (after a substitution put an aggregate under a field projection)"""
    from .terms import simp
    if not isinstance(t, tuple) or not t:
        return t
    if isinstance(t[0], str):
        if t[0] in ("call", "op"):
            t = (t[0], t[1], tuple(resimp(x) for x in t[2])) + t[3:]
        else:
            t = tuple(resimp(x) if isinstance(x, tuple) else x for x in t)
        return simp(t) if t[0] == "field" else t
    return tuple(resimp(x) if isinstance(x, tuple) else x for x in t)


def reduction_of(prog, fn, v, t):
    """Unified description of an accumulated value.  t is a term that is
         phi(local ..)                                   (loop form:  for x in S { acc = step(acc, x) })   or
         fold(S, init, |acc, x| step)                    (iterator form)
       possibly wrapped in further updates.  Returns dict(source=S term (the iterated expression, `iter(..)` peeled),
       init=[terms], steps=[terms over ACC / ITEM executed per element], after=[terms over ACC applied once], form=..)
       or None."""
    if not isinstance(t, tuple) or not t:
        return None
    while t[0] == "ok" and is_call(t[1], name="try_fold"):
        t = t[1]
    if t[0] == "call" and t[1].rsplit("::", 1)[-1] in ("fold", "try_fold") and len(t[2]) == 3:
        src, init, clo = t[2]
        # a source mapped or zipped before it is folded: the step sees the mapped element; the source is the base collection
        # (zip(A, B) over the two bases for a zip, the element then over ITEM.0 / ITEM.1)
        elem = ITEM
        lv = lockstep_view(prog, src) if mentions(src, lambda u: is_call(u, name="map") or is_call(u, name="zip")) else None
        if lv is not None:
            elem = lv[1]
            src = lv[0][0] if len(lv[0]) == 1 else ("call", "core::iter::traits::iterator::Iterator::zip", lv[0], None, None)
        body = closure_body(prog, clo, {2: ACC, 3: elem})
        if body is None:
            return None
        if t[1].rsplit("::", 1)[-1] == "try_fold":
            # the step's Ok payload(s): an Err stops the traversal and is returned
            body = ok_of(prog, body)
            if len(body) != 1:
                return None
            body = body[0]
            if body[0] == "ok":
                body = body  # a Result computed by a call: payload stays symbolic
        return {"source": strip_iter_calls(src), "init": [init], "steps": [body], "after": [], "form": t[1].rsplit("::", 1)[-1],
                "skippable": False, "early_exit": False}
    if t[0] == "phi":
        key, local = t[1]
        if key != fn.key:
            return None
        for lp in loop_report(prog, fn, v):
            if local in lp["acc"]:
                it = lp["iter_term"]
                if it is None:
                    return None
                item = lambda x, it=it: x[0] == "some" and is_call(x[1], name="next") and x[1][2] and x[1][2][0] == it
                elem, src_term = ITEM, strip_iter_calls(it)
                lvw = lockstep_view(prog, it) if mentions(it, lambda u: is_call(u, name="map") or is_call(u, name="zip")) else None
                if lvw is not None:
                    elem = lvw[1]
                    src_term = lvw[0][0] if len(lvw[0]) == 1 else ("call", "core::iter::traits::iterator::Iterator::zip", lvw[0], None, None)
                lv = lambda x: x[0] == "loopvar" and x[2] == local
                cx = TermCx(prog, fn, v.cx.argsub, v.cx.depth, frames=v.cx.frames)     # same vocabulary as the view
                cx.busy.add(local)
                init, steps, after = [], [], []
                rpo = fn.rpo()
                ds = sorted([d for d in fn.defs().get(local, []) if d[0] in ("assign", "call")], key=lambda d: (rpo.get(d[1], 0), d[2] if d[0] == "assign" else 10 ** 6))
                for d in ds:
                    x = cx.rvalue(d[3], (fn.key, d[1], d[2])) if d[0] == "assign" else cx.call(d[2], (fn.key, d[1]))
                    x = subst(x, [(lv, ACC), (item, elem)])
                    if elem != ITEM:
                        x = resimp(x)
                    if d[1] in lp["body"]:
                        steps.append(x)
                    elif mentions(x, lambda s: s == ACC):
                        after.append(x)
                    else:
                        init.append(x)
                return {"source": src_term, "init": init, "steps": steps, "after": after, "form": "loop",
                        "skippable": lp["skippable"].get(local, False), "early_exit": any(c == "break" for _, c in lp["exits"]), "loop": lp}
        return None
    # wrapped: add(reduction, extra) etc. are handled by the callers
    return None


def apply_callable(prog, c, args):
    """the value of calling `c` — a closure term or a path to a workspace function (`.map(Delta::new)`) — on the given terms"""
    if not isinstance(c, tuple) or not c:
        return None
    if c[0] == "closure":
        return closure_body(prog, c, {i + 2: a for i, a in enumerate(args)})
    if c[0] == "fnref":
        g = prog.fns.get(c[1])
        if g is not None and g.has_body and g.crate.startswith("frost") and len(g.blocks) <= 12:
            return TermCx(prog, g, {i + 1: a for i, a in enumerate(args)}, 1).local(0)
        last = c[1].split("::<")[0].rsplit("::", 1)[-1]
        if g is None and c[1].startswith("frost") and last[:1].isupper():
            # the constructor of a tuple struct used as a function (`.map(VerifiableSecretSharingCommitment)`)
            return ("agg", "adt", c[1].split("::<")[0], last, tuple((str(i), a) for i, a in enumerate(args)))
    return None


def _ok_payload_of(body, prog=None):
    """a fallible per-element mapping collected into Result<_, E>: the entry is the Ok payload (errors stop the collection)"""
    if prog is not None and is_call(body) and "result::Result" in body[1] and body[1].rsplit("::", 1)[-1] in ("map", "and_then"):
        pays = list(dict.fromkeys(ok_of(prog, body)))
        if len(pays) == 1 and not (pays[0][0] == "ok" and pays[0][1] == body):
            return pays[0]
    alts = [a for a in (body[2] if body[0] == "phi" else (body,)) if a[0] not in ("residual", "errval")
            and not (a[0] == "agg" and a[2] == "core::result::Result" and a[3] == "Err")]
    if len(alts) == 1 and alts[0][0] == "agg" and alts[0][2] == "core::result::Result" and alts[0][3] == "Ok":
        return alts[0][4][0][1]
    if len(alts) == 1:
        return alts[0]
    return body


def lockstep_view(prog, t, depth=0):
    """element-wise view of an iterator expression built from `.iter()`, `.map(f)` and `.zip(..)` only:
    (sources, elem) — the base collections walked in lock step (one or two) and the element produced for the i-th step, over
    ITEM (one source) or ITEM.0 / ITEM.1 (two).  None if anything else (an element-dropping adaptor, three-way zips) occurs."""
    if not isinstance(t, tuple) or not t or depth > 6:
        return None
    x = t
    while True:
        if x[0] == "iter":
            x = x[1]
        elif x[0] == "call" and x[1].rsplit("::", 1)[-1] in ("iter", "into_iter", "copied", "cloned", "by_ref") and len(x[2]) == 1:
            x = x[2][0]
        else:
            break
    if is_call(x, name="map") and len(x[2]) == 2 and "Iterator" in x[1]:
        inner = lockstep_view(prog, x[2][0], depth + 1)
        if inner is None:
            return None
        body = apply_callable(prog, x[2][1], [inner[1]])
        if body is None:
            return None
        return inner[0], body
    if is_call(x, name="zip") and len(x[2]) == 2:
        a, b = lockstep_view(prog, x[2][0], depth + 1), lockstep_view(prog, x[2][1], depth + 1)
        if a is None or b is None or len(a[0]) != 1 or len(b[0]) != 1:
            return None
        if a[0][0] == b[0][0]:
            # both sides walk the same collection completely and in order: the i-th pair is made from its i-th element alone
            return (a[0][0],), ("agg", "tuple", None, None, (("0", a[1]), ("1", b[1])))
        ea = subst(a[1], [(lambda y: y == ITEM, ("field", ITEM, None, "0"))])
        eb = subst(b[1], [(lambda y: y == ITEM, ("field", ITEM, None, "1"))])
        return (a[0][0], b[0][0]), ("agg", "tuple", None, None, (("0", ea), ("1", eb)))
    sv = seq_view(x)
    if sv is None or sv["adaptors"] or sv["drop_front"] or sv["drop_back"] or sv.get("filters") or sv.get("reversed"):
        return None
    b = sv["base"]
    while isinstance(b, tuple) and b and b[0] == "ok":
        b = b[1]
    if is_call(b, name="collect") and b[2] and collects_in_order(prog, b) and \
            mentions(b[2][0], lambda u: is_call(u, name="map") or is_call(u, name="zip")):
        # an intermediate vector built element by element (`let terms: Vec<_> = S.iter().map(g).collect()` — fallible or not —
        # and traversed afterwards): one element per element of S, in the same order; compose
        inner = lockstep_view(prog, b[2][0], depth + 1)
        if inner is not None:
            return inner[0], _ok_payload_of(inner[1], prog)
    return (sv["base"],), ITEM


def collects_in_order(prog, t):
    """a `collect()` call whose target keeps every element in traversal order (Vec, Result<Vec, _>, Option<Vec>) — a map or
    set target sorts and merges, which is not an element-wise view"""
    site = t[3] if len(t) > 3 else None
    if not site:
        return False
    fk, bb = (site[2], site[-1]) if site[0] == "inl" else (site[0], site[-1])
    g = prog.fns.get(fk)
    if g is None or not g.has_body:
        return False
    try:
        blk = g.blocks[bb]
    except (KeyError, IndexError, TypeError):
        return False
    ci = callee_of(blk.term) or {}
    ga = ci.get("gargs") or []
    tgt = ga[-1] if ga else ""
    for w in ("core::result::Result<", "core::option::Option<"):
        if tgt.startswith(w):
            tgt = tgt[len(w):]
    return tgt.startswith("alloc::vec::Vec<")


def mapping_of(prog, fn, v, t):
    """Unified description of a map/vector built element-wise from a source:
         collect(map(iter(S), |x| (k, val)))      or     new(){insert(k(x), val(x))} / new(){push(val(x))} in a loop over S
       -> dict(source=S, key=term over ITEM or None, val=term over ITEM, form=..) or None"""
    if not isinstance(t, tuple) or not t:
        return None
    t = strip_iter_calls(t)
    while t[0] == "ok":
        t = t[1]
    if t[0] == "field" and t[2] is None and t[3] in ("0", "1") and is_call(t[1], name="unzip") and len(t[1][2]) == 1:
        # one side of `pairs.into_iter().unzip()`: one value per pair, its k-th component
        m = mapping_of(prog, fn, v, t[1][2][0])
        if m and m["key"] is None and m["val"][0] == "agg" and m["val"][1] == "tuple" and len(m["val"][4]) == 2:
            return {"source": m["source"], "key": None, "val": m["val"][4][int(t[3])][1], "form": m["form"] + "+unzip"}
        if m and m["key"] is not None:
            # the mapped pair was read as (key, value): its two components are the two sides
            return {"source": m["source"], "key": None, "val": (m["key"], m["val"])[int(t[3])], "form": m["form"] + "+unzip"}
        return None
    if is_call(t, name="collect") and t[2] and (is_call(t[2][0], name="map") or is_call(t[2][0], name="zip")):
        t = t[2][0]
    if (is_call(t, name="map") and len(t[2]) == 2 and "Iterator" in t[1]) or (is_call(t, name="zip") and len(t[2]) == 2):
        # two sequences walked in lock step (`a.zip(b)`, mapped before or after the zip): one value per pair; the source is
        # rendered as zip(A, B) over the two base collections, the element over ITEM.0 / ITEM.1
        lv = lockstep_view(prog, t)
        if lv is not None and len(lv[0]) == 2:
            body = _ok_payload_of(lv[1], prog)
            src2 = ("call", "core::iter::traits::iterator::Iterator::zip", (lv[0][0], lv[0][1]), None, None)
            if body[0] == "agg" and body[1] == "tuple" and len(body[4]) == 2:
                return {"source": src2, "key": body[4][0][1], "val": body[4][1][1], "form": "zip-map"}
            return {"source": src2, "key": None, "val": body, "form": "zip-map"}
        if is_call(t, name="zip"):
            return None
        if lv is not None and len(lv[0]) == 1 and lv[1] != ITEM:
            body = _ok_payload_of(lv[1], prog)
            if body[0] == "agg" and body[1] == "tuple" and len(body[4]) == 2:
                return {"source": lv[0][0], "key": body[4][0][1], "val": body[4][1][1], "form": "map"}
            return {"source": lv[0][0], "key": None, "val": body, "form": "map"}
    if is_call(t, name="map") and len(t[2]) == 2 and "Iterator" in t[1]:
        # `.map(f)` consumed lazily or collected: one value per element either way
        src, clo = t[2]
        body = apply_callable(prog, clo, [ITEM])
        if body is None:
            return None
        body = _ok_payload_of(body, prog)
        sv = seq_view(src)
        if sv is None or sv["adaptors"] or sv["drop_front"] or sv["drop_back"]:
            return None
        if body[0] == "agg" and body[1] == "tuple" and len(body[4]) == 2:
            return {"source": sv["base"], "key": body[4][0][1], "val": body[4][1][1], "form": "map"}
        return {"source": sv["base"], "key": None, "val": body, "form": "map"}
    if t[0] == "mut" and (is_call(t[1], name="new") or is_call(t[1], name="with_capacity")):
        ins = [o for o in t[2] if o[1] in ("insert", "push")]
        if len(ins) != 1 or len([o for o in t[2] if o[1] not in ("insert", "push", "reserve")]) > 0:
            return None
        o = ins[0]
        site = o[3]
        bb = site_bb(site, fn)
        for lp in loop_report(prog, fn, v):
            if bb is not None and bb in lp["body"] and lp["iter_term"] is not None:
                it = lp["iter_term"]
                item = lambda x, it=it: x[0] == "some" and is_call(x[1], name="next") and x[1][2] and x[1][2][0] == it
                args = [subst(a, [(item, ITEM)]) for a in o[2]]
                _, back = body_reach(fn, lp, list(lp["some_targets"]), removed_blocks={bb})
                if back or any(c == "break" for _, c in lp["exits"]):
                    return None
                src = it[1] if it[0] == "iter" else it
                if o[1] == "insert" and len(args) == 2:
                    return {"source": strip_iter_calls(src), "key": args[0], "val": args[1], "form": "loop-insert"}
                if o[1] == "push" and len(args) == 1:
                    return {"source": strip_iter_calls(src), "key": None, "val": args[0], "form": "loop-push"}
        return None
    return None


def strip_iter_calls(t):
    """peel `.iter()` / `.into_iter()` / `iter(..)`: the collection being traversed"""
    while isinstance(t, tuple) and t:
        if t[0] == "iter":
            t = t[1]
        elif t[0] == "call" and t[1].rsplit("::", 1)[-1] in ("iter", "into_iter") and len(t[2]) == 1:
            t = t[2][0]
        else:
            break
    return t


def item_part(k):
    """matcher for ITEM.k (tuple component of the current element), also through deref/copies"""
    return lambda t: t == ("field", ITEM, None, str(k))


def seq_view(t):
    """which elements of which collection a traversal visits, in which order: peels iter/rev/skip and `split_first` tails.
    -> dict(base, drop_front, drop_back, reversed, adaptors={name: n}) (None for an unrecognised chain)"""
    ops = []
    adaptors = {}
    filters = []
    while isinstance(t, tuple) and t:
        if t[0] == "iter":
            t = t[1]
            continue
        if t[0] == "call" and t[2]:
            nm = t[1].rsplit("::", 1)[-1]
            if nm in ("iter", "into_iter", "cloned", "copied") and len(t[2]) == 1:
                t = t[2][0]
                continue
            if nm == "rev" and len(t[2]) == 1:
                ops.append(("rev", 0))
                adaptors["rev"] = adaptors.get("rev", 0) + 1
                t = t[2][0]
                continue
            if nm == "filter" and len(t[2]) == 2 and t[2][1][0] == "closure":
                filters.append(t[2][1])
                adaptors["filter"] = adaptors.get("filter", 0) + 1
                t = t[2][0]
                continue
            if nm == "skip" and len(t[2]) == 2 and t[2][1][0] == "const" and isinstance(t[2][1][2], int):
                ops.append(("skip", t[2][1][2]))
                adaptors["skip"] = adaptors.get("skip", 0) + 1
                t = t[2][0]
                continue
        break
    df = db = 0
    rev = False
    if t[0] == "field" and t[2] is None and t[3] == "1" and split_first_payload(t[1]) is not None:
        t = split_first_payload(t[1])
        df = 1
    for (op, k) in reversed(ops):
        if op == "rev":
            rev = not rev
        elif not rev:
            df += k
        else:
            db += k
    return {"base": t, "drop_front": df, "drop_back": db, "reversed": rev, "adaptors": adaptors, "filters": filters}


def split_first_payload(p):
    """p = coefficients.split_first().expect(..) / Some payload: the collection that was split"""
    inner = None
    if isinstance(p, tuple) and p:
        if p[0] == "call" and p[1].rsplit("::", 1)[-1] in ("expect", "unwrap") and p[2]:
            inner = p[2][0]
        elif p[0] == "some":
            inner = p[1]
    if inner is not None and is_call(inner, name="split_first") and len(inner[2]) == 1:
        return inner[2][0]
    return None


def first_of(base):
    """matcher: the first element of `base`: base.first().expect(..) / Some payload / split_first().0 / base[0]"""
    def m(t):
        if not isinstance(t, tuple) or not t:
            return False
        if t[0] == "field" and t[2] is None and t[3] == "0" and split_first_payload(t[1]) is not None:
            return base(split_first_payload(t[1]))
        inner = None
        if t[0] == "call" and t[1].rsplit("::", 1)[-1] in ("expect", "unwrap") and t[2]:
            inner = t[2][0]
        elif t[0] == "some":
            inner = t[1]
        if inner is not None and is_call(inner, name="first") and len(inner[2]) == 1:
            return base(inner[2][0])
        if t[0] == "cindex" and t[2] == 0 and not t[3]:
            return base(t[1])
        return False
    return m


def composed_step(steps):
    """sequential in-loop updates acc = s1(acc); acc = s2(acc) as one step s2(s1(acc))"""
    cur = ACC
    for st in steps:
        cur = subst(st, [(lambda x: x == ACC, cur)])
    return cur


def sum_over(P, f, v, t, source, item=None):
    """t is the sum, from zero, of item(x) over every x of a collection matched by `source` — written as a loop
    (`acc = acc + x`) or as `.fold(zero, |acc, x| acc + x)`; no element can be skipped, no early exit"""
    item = item or (lambda x: strip_newtype_fields(unwrap_newtypes(x)) == ITEM)
    r = reduction_of(P, f, v, t)
    if not r:
        return False
    if not (len(r["init"]) == 1 and is_call(r["init"][0], name="zero")):
        return False
    if len(r["steps"]) != 1 or r["after"] or r["skippable"] or r["early_exit"]:
        return False
    st = r["steps"][0]
    if not (is_call(st, name="add") and len(st[2]) == 2):
        return False
    a, b = st[2]
    if not ((a == ACC and item(b)) or (b == ACC and item(a))):
        return False
    return bool(source(strip_iter_calls(r["source"])))


def calls_on_paths(f, v, removed_edges, name):
    """the calls named `name` executed on the paths that avoid `removed_edges`, in execution order, provided every such
    path executes all of them (each is unavoidable on the way to the return): [(bb, arg terms)] or None"""
    removed_edges = frozenset(removed_edges)
    r = f.reach(0, removed=removed_edges)
    rets = {b for b in r if f.blocks[b].term["k"] == "return"}
    sites = [bb for (bb, t, ci) in f.calls() if ci and ci.get("name") == name and bb in r]
    for bb in sites:
        ins = frozenset((p, bb) for (p, _l) in f.preds().get(bb, ()))
        if f.reach(0, removed=removed_edges | ins) & rets:
            return None        # some path of this class skips the call
    rpo = f.rpo()
    sites.sort(key=lambda b: rpo.get(b, 0))
    return [(bb, v.call_args(bb)) for bb in sites]


COUNT_PRESERVING = {"iter", "into_iter", "map", "cloned", "copied", "rev", "enumerate", "values", "keys", "iter_mut", "by_ref", "inspect"}
ELEMENT_LOOKUPS = {"min", "max", "first", "last", "split_first", "split_last", "min_by_key", "max_by_key", "min_by", "max_by", "next", "next_back"}


def count_base(t):
    """the collection whose elements a count-preserving iterator chain visits (one item per element)"""
    while isinstance(t, tuple) and t:
        if t[0] == "iter":
            t = t[1]
        elif t[0] == "call" and t[1].rsplit("::", 1)[-1] in COUNT_PRESERVING and t[2]:
            t = t[2][0]
        else:
            break
    return t


def nonempty_lookup(base):
    """matcher: an element look-up (min/max/first/last/..) on a count-preserving view of `base`: Some iff base is non-empty"""
    return lambda t: isinstance(t, tuple) and t and t[0] == "call" and t[1].rsplit("::", 1)[-1] in ELEMENT_LOOKUPS and t[2] \
        and base(count_base(t[2][0]))


def on_every_success_path(f, bb):
    """every successful return of f (Ok / Some / plain return) passes through block bb"""
    from .guards import returns_result
    ins = frozenset((p, bb) for (p, _l) in f.preds().get(bb, ()))
    r = f.reach(0, removed=ins) if bb != 0 else set()
    if returns_result(f):
        sinks = {b for (b, k, _) in ret_writes(f) if k in ("ok", "call", "other")}
    else:
        sinks = {b for b in f.normal_blocks() if f.blocks[b].term["k"] == "return"}
    return not (r & sinks)


def per_item_bytes(P, f, v):
    """f returns a byte vector that is the concatenation, over every element of one collection in order, of a fixed list of
    per-element parts: dict(source, parts=[terms over ITEM], form) — for `for x in S { buf.extend_from_slice(..) }` and for
    `S.iter().try_fold(Vec::new(), |mut buf, x| { buf.extend(..); Ok(buf) })` / `.fold(..)`.  None if any part can be skipped
    or the traversal can stop early without an error."""
    from .seq import flatten, _is_empty_ctor, EXTENDERS
    oks = ok_values(f, v)
    if len(oks) != 1:
        return None
    t = oks[0]
    while t[0] == "ok":
        t = t[1]
    if t[0] == "mut" and _is_empty_ctor(t[1]):
        ops = [o for o in t[2] if o[1] not in ("reserve",)]
        if not ops or any(o[1] not in EXTENDERS or not o[2] for o in ops):
            return None
        for lp in loop_report(P, f, v):
            if lp["iter_term"] is None or not all(site_bb(o[3], f) is not None and o[3][-1] in lp["body"] for o in ops):
                continue
            it = lp["iter_term"]
            if any(c == "break" for _, c in lp["exits"]):
                return None
            for o in ops:
                _, back = body_reach(f, lp, list(lp["some_targets"]), removed_blocks={o[3][-1]})
                if back:
                    return None
            item = lambda x, it=it: x[0] == "some" and is_call(x[1], name="next") and x[1][2] and x[1][2][0] == it
            rpo = f.rpo()
            parts = []
            for o in sorted(ops, key=lambda o: rpo.get(o[3][-1], 0)):
                parts += [subst(p, [(item, ITEM)]) for p in flatten(o[2][0])]
            return {"source": strip_iter_calls(it), "parts": parts, "form": "loop"}
        return None
    if is_call(t) and t[1].rsplit("::", 1)[-1] in ("try_fold", "fold") and len(t[2]) == 3 and _is_empty_ctor(t[2][1]) and t[2][2][0] == "closure":
        src, init, clo = t[2]
        cf = P.fns.get(clo[1])
        body = closure_body(P, clo, {2: ACC, 3: ITEM})
        if cf is None or body is None or cf.loops():
            return None
        alts = body[2] if body[0] == "phi" else (body,)
        vals = []
        for a in alts:
            if a[0] == "agg" and a[2] == "core::result::Result":
                if a[3] == "Ok":
                    vals.append(a[4][0][1])
            elif a[0] not in ("residual", "errval"):
                vals.append(a)
        if len(vals) != 1 or vals[0][0] != "mut" or vals[0][1] != ACC:
            return None
        ops = [o for o in vals[0][2] if o[1] not in ("reserve",)]
        if not ops or any(o[1] not in EXTENDERS or not o[2] for o in ops):
            return None
        parts = []
        for o in ops:
            site = o[3]
            if site[0] == "inl" or site[0] != cf.key or not on_every_success_path(cf, site[-1]):
                return None
            parts += flatten(o[2][0])
        sv = seq_view(src)
        if sv is None or sv["adaptors"]:
            return None
        return {"source": sv["base"], "parts": parts, "form": t[1].rsplit("::", 1)[-1]}
    return None


def commitment_entry_parts(P):
    """the unified per-entry view of round1::encode_group_commitments: (fn, view) or None and matchers for its parts"""
    f = P.fns.get("frost_core::round1::encode_group_commitments")
    if f is None or not f.has_body:
        return None, None
    return f, per_item_bytes(P, f, FnView.get(P, f))


def entry_part(which):
    """matcher over ITEM for the encoded parts of a commitment-list entry: 'identifier' | 'hiding' | 'binding'"""
    if which == "identifier":
        return lambda x: is_call(x, name="serialize") and mentions(x[2][0], lambda s: s == ("field", ITEM, None, "0")) and \
            not mentions(x[2][0], lambda s: s == ("field", ITEM, None, "1"))
    return lambda x: x[0] == "ok" and is_call(x[1], name="serialize") and \
        mentions(x[1][2][0], lambda s: is_field(s, "SigningCommitments", which) and s[1] == ("field", ITEM, None, "1"))


def seq_components(P, f, v, t):
    """a chained sequence handed to a consumer, as the ordered list of its components:
    ("one", x) a single element (`once(x)`, `[x].iter()`), ("each", source, val over ITEM) one element per element of a
    collection (a vector filled in a loop, or a lazy / collected `.map(..)`), ("?", term) anything else"""
    if is_call(t, name="chain") and len(t[2]) == 2:
        return seq_components(P, f, v, t[2][0]) + seq_components(P, f, v, t[2][1])
    x = strip_iter_calls(t)
    if is_call(x, name="once") and len(x[2]) == 1:
        return [("one", x[2][0])]
    if x[0] == "agg" and x[1] == "array" and len(x[4]) == 1:
        return [("one", x[4][0][1])]
    m = mapping_of(P, f, v, x)
    if m and m["key"] is None:
        return [("each", m["source"], m["val"])]
    return [("?", x)]


def site_bb(site, f):
    """block of a call/op site if it lies in function f itself — directly, or because f is being looked at through a call-site view
    (sites then carry the frames of that view) — else None"""
    if not site:
        return None
    if site[0] == "inl":
        return site[-1] if site[2] == f.key else None
    return site[-1] if site[0] == f.key else None


def loop_item_subst(lp):
    """substitution turning the loop's current element(s) into ITEM (ITEM.0 / ITEM.1 for a lock-step loop), and the source"""
    it = lp["iter_term"]
    nxt = lambda i: (lambda x: x[0] == "some" and is_call(x[1], name="next") and x[1][2] and x[1][2][0] == i)
    if lp.get("lockstep"):
        a, b = lp["lockstep"]
        return [(nxt(a), ("field", ITEM, None, "0")), (nxt(b), ("field", ITEM, None, "1"))]
    return [(nxt(it), ITEM)]


def loop_source(lp):
    """base collection(s) a loop walks completely and in order: the base, zip(A, B) for a lock-step loop, None otherwise"""
    def base(i):
        sv = seq_view(i)
        if sv is None or sv["adaptors"] or sv["drop_front"] or sv["drop_back"] or sv.get("filters") or sv.get("reversed"):
            return None
        return sv["base"]
    if lp.get("lockstep"):
        a, b = base(lp["lockstep"][0]), base(lp["lockstep"][1])
        return None if a is None or b is None else ("call", "core::iter::traits::iterator::Iterator::zip", (a, b), None, None)
    return base(lp["iter_term"])


def map_components(P, f, v, t):
    """contents of a map / vector value as an unordered list of components:
       ("each", source, key, val)  one entry per element of `source` (key/val over ITEM; key None for vectors),
       ("one", key, val)           a single entry,   ("?", term) anything else.
    Forms: `.map(..).chain(once(..)).collect()`, an empty container filled by inserts/pushes inside loops and outside them."""
    from .seq import _is_empty_ctor

    def split(x):
        if x[0] == "agg" and x[1] == "tuple" and len(x[4]) == 2:
            return x[4][0][1], x[4][1][1]
        return None, x
    while t[0] == "ok":
        t = t[1]
    if is_call(t, name="collect") and t[2]:
        out = []
        for c in seq_components(P, f, v, t[2][0]):
            if c[0] == "each":
                k, val = split(c[2])
                out.append(("each", c[1], k, val))
            elif c[0] == "one":
                k, val = split(c[1])
                out.append(("one", k, val))
            else:
                m = mapping_of(P, f, v, c[1])
                out.append(("each", m["source"], m["key"], m["val"]) if m else c)
        return out
    if t[0] == "mut" and (_is_empty_ctor(t[1]) or (is_call(t[1], name="collect") and t[1][2])):
        # an empty container, or one collected from a sequence, then filled further
        out = [] if _is_empty_ctor(t[1]) else list(map_components(P, f, v, t[1]))
        lps = loop_report(P, f, v)
        for o in t[2]:
            if o[1] == "extend" and len(o[2]) == 1 and site_bb(o[3], f) is not None and \
                    not any(o[3][-1] in lp["body"] for lp in lps) and on_every_success_path(f, o[3][-1]):
                # `.extend(seq)` outside loops adds the components of seq
                for c in seq_components(P, f, v, o[2][0]):
                    if c[0] == "each":
                        k, val = split(c[2])
                        out.append(("each", c[1], k, val))
                    elif c[0] == "one":
                        k, val = split(c[1])
                        out.append(("one", k, val))
                    else:
                        out.append(("?", o))
                continue
            if o[1] == "reserve":
                continue
            if o[1] not in ("insert", "push") or site_bb(o[3], f) is None:
                out.append(("?", o))
                continue
            bb = o[3][-1]
            inl = [lp for lp in lps if bb in lp["body"]]
            if not inl:
                if not on_every_success_path(f, bb):
                    out.append(("?", o))
                    continue
                out.append(("one", o[2][0], o[2][1]) if o[1] == "insert" and len(o[2]) == 2 else ("one", None, o[2][0]))
                continue
            lp = min(inl, key=lambda l: len(l["body"]))
            it = lp["iter_term"]
            _, back = body_reach(f, lp, list(lp["some_targets"]), removed_blocks={bb})
            if it is None or back or any(c == "break" for _, c in lp["exits"]) or len(inl) > 1:
                out.append(("?", o))
                continue
            args = [resimp(subst(a, loop_item_subst(lp))) for a in o[2]]
            srcb = loop_source(lp)
            if srcb is None:
                out.append(("?", o))
                continue
            out.append(("each", srcb, args[0], args[1], ("loop", lp["header"])) if o[1] == "insert" and len(args) == 2
                       else ("each", srcb, None, args[0], ("loop", lp["header"])))
        return out
    m = mapping_of(P, f, v, t)
    if m:
        if m["key"] is None and m["form"].endswith("+unzip"):
            # one side of an unzip of pairs of pairs: a collection of (key, value) entries
            k, val = split(m["val"])
            return [("each", m["source"], k, val)]
        return [("each", m["source"], m["key"], m["val"])]
    return [("?", t)]


def set_of(P, f, v, base):
    """matcher: a set/collection holding exactly the elements of a collection matched by `base` (duplicates merged):
    `base.iter().cloned().collect::<BTreeSet<_>>()` or an empty set filled by `insert(*x)` for every x of base"""
    def m(t):
        if not isinstance(t, tuple) or not t:
            return False
        t = look_through(P, t)        # a set handed back by a validating helper
        if is_call(t, name="collect") and t[2]:
            sv = seq_view(t[2][0])
            return sv is not None and not sv["adaptors"] and not sv["drop_front"] and not sv["drop_back"] and base(sv["base"])
        comps = map_components(P, f, v, t)
        return len(comps) == 1 and comps[0][0] == "each" and comps[0][2] is None and base(comps[0][1]) and \
            strip_newtype_fields(comps[0][3]) == ITEM
    return m


def dedup_of(P, f, v, base):
    """matcher: a set built from one value per element of a collection matched by `base` (the element itself or a projection of
    it): its length equals base's length exactly when those values are pairwise distinct"""
    def m(t):
        if not isinstance(t, tuple) or not t:
            return False
        if is_call(t, name="collect") and t[2]:
            return bool(base(count_base(t[2][0])))
        if t[0] == "mut":
            comps = map_components(P, f, v, t)
            return len(comps) == 1 and comps[0][0] == "each" and comps[0][2] is None and bool(base(comps[0][1]))
        return False
    return m


def paired_sequences(P, f, v, t):
    """t is a pair of sequences filled in lock-step from one traversal: `(a, b)` with a.push(x_i), b.push(y_i) in the same loop, or
    `S.map(|i| (x_i, y_i)).unzip()` -> dict(source, first, second (terms over ITEM), ctx=("loop", header)|("closure", key)) or None"""
    if is_call(t, name="unzip") and len(t[2]) == 1 and is_call(t[2][0], name="map") and len(t[2][0][2]) == 2:
        src, clo = t[2][0][2]
        body = closure_body(P, clo, {2: ITEM})
        sv = seq_view(src)
        if body is None or sv is None or sv["adaptors"] or sv["drop_front"] or sv["drop_back"]:
            return None
        if body[0] == "agg" and body[1] == "tuple" and len(body[4]) == 2:
            return {"source": sv["base"], "first": body[4][0][1], "second": body[4][1][1], "ctx": ("closure", clo[1])}
        return None
    if t[0] == "agg" and t[1] == "tuple" and len(t[4]) == 2:
        a, b = map_components(P, f, v, t[4][0][1]), map_components(P, f, v, t[4][1][1])
        if len(a) == 1 and len(b) == 1 and a[0][0] == "each" and b[0][0] == "each" and a[0][1] == b[0][1] and \
                a[0][2] is None and b[0][2] is None and len(a[0]) > 4 and a[0][4] == b[0][4]:
            return {"source": a[0][1], "first": a[0][3], "second": b[0][3], "ctx": a[0][4]}
    return None


def site_is_per_item(f, ctx_, site):
    """a call/op site executes once per element of the traversal described by ctx_ (inside that loop / inside that closure)"""
    outer = site[1][0] if site and site[0] == "inl" and site[1] else (site[2:] if site and site[0] == "inl" else site)
    if ctx_[0] == "closure":
        key = outer[1] if outer and outer[0] == "clo" else outer[0]
        return key == ctx_[1] or (site and site[0] == "inl" and any(fr[0] == "clo" and fr[1] == ctx_[1] for fr in site[1])) or \
            (site and site[0] != "inl" and site[0] == ctx_[1]) or (site and site[0] == "inl" and site[2] == ctx_[1])
    if ctx_[0] == "loop":
        lps = [lp for lp in f.loops() if lp["header"] == ctx_[1]]
        return bool(lps) and outer and outer[0] == f.key and outer[-1] in lps[0]["body"]
    return False


def tail_results(P, f, v):
    """the Result-valued call(s) whose value a function returns as it is, looking through `x.and_then(|v| g(v))` (= g(ok(x))) and
    `x.map_err(..)`: [terms]"""
    from .terms import okval
    out = []

    def walk(T, depth=0):
        T = peel_result(T)
        if is_call(T) and len(T[2]) == 2 and T[2][1][0] == "closure" and "result::Result" in T[1] and T[1].rsplit("::", 1)[-1] == "and_then" and depth < 3:
            body = closure_body(P, T[2][1], {2: okval(T[2][0])})
            if body is not None:
                for a in (body[2] if body[0] == "phi" else (body,)):
                    walk(a, depth + 1)
                return
        out.append(T)
    for (b, k, rv) in ret_writes(f):
        if k == "call":
            walk(v.cx.call(rv, v.cx.site(b)))
    return out


def sep_holds(prog, fn, mechanisms, sinks, require_fail_err=True):
    """silent SEP: every path from entry to a sink crosses a PASS edge of some mechanism (helpers and tail values included)"""
    v = FnView.get(prog, fn)
    pe, found = pass_edges_of(prog, v, mechanisms, sinks, require_fail_err)
    left = set(sinks) - guarded_sinks(prog, v, mechanisms, sinks, require_fail_err)
    return bool(set(sinks)) and (bool(found) or not left) and not sep(fn, pe, left)


def array_len_of_type(ty):
    import re
    m = re.search(r"\[u8; (\d+)\]", ty or "")
    return int(m.group(1)) if m else None


def exact_length(prog, fn, sinks, inp, const_n=None, sum_of=None):
    """Every path to a sink has established len(inp) == N (const_n) or == a + b (sum_of = (pred a, pred b)).  Reviewed idioms:
       `inp.len() != N` refusal;  `<&[u8; N]>::try_from(inp)` is Ok;  `inp.split_at_checked(a)` is Some and the rest's length == b
       (hence len == a + b).  -> name of the idiom that holds, or None"""
    if const_n is not None:
        if sep_holds(prog, fn, [("len==N", cmp_fact("eq", length(inp), const(const_n), False))], sinks):
            return "len == %d" % const_n
        tf = lambda t: is_call(t) and t[1].rsplit("::", 1)[-1] == "try_from" and len(t[2]) == 1 and inp(t[2][0]) and \
            array_len_of_type(t[4] if len(t) > 4 and isinstance(t[4], str) else "") == const_n
        if sep_holds(prog, fn, [("<&[u8; N]>::try_from", succ_fact(tf))], sinks, require_fail_err=False):
            return "<&[u8; %d]>::try_from(..) is Ok" % const_n
        # inp.split_first_chunk::<N1>() is Some and <&[u8; N2]>::try_from(rest) is Ok, N1 + N2 == N
        def chunk_n(t):
            ci, _term = call_info(prog, t)
            g = (ci or {}).get("gargs") or []
            return int(g[-1]) if g and str(g[-1]).isdigit() else None
        sfc = lambda t: is_call(t, name="split_first_chunk") and len(t[2]) == 1 and inp(t[2][0]) and chunk_n(t) is not None
        v_ = FnView.get(prog, fn)
        for (e_, fa_) in v_.own_facts:
            if fa_[0] == "succ" and fa_[2] and sfc(peel_result(fa_[1])):
                sp_t = peel_result(fa_[1])
                n1 = chunk_n(sp_t)
                rest = lambda t, sp_t=sp_t: t == ("field", ("some", sp_t), None, "1")
                tf2 = lambda t, n1=n1, rest=rest: is_call(t) and t[1].rsplit("::", 1)[-1] == "try_from" and len(t[2]) == 1 and rest(t[2][0]) and \
                    array_len_of_type(t[4] if len(t) > 4 and isinstance(t[4], str) else "") == const_n - n1
                if sep_holds(prog, fn, [("split_first_chunk", succ_fact(lambda t, sp_t=sp_t: t == sp_t))], sinks, require_fail_err=False) and \
                        sep_holds(prog, fn, [("rest try_from", succ_fact(tf2))], sinks, require_fail_err=False):
                    return "split_first_chunk::<%d>() is Some and <&[u8; %d]>::try_from(rest) is Ok" % (n1, const_n - n1)
        return None
    pa, pb = sum_of
    total = lambda t: t[0] == "bin" and t[1] in ("Add", "AddWithOverflow") and ((pa(t[2]) and pb(t[3])) or (pa(t[3]) and pb(t[2])))
    if sep_holds(prog, fn, [("len==a+b", cmp_fact("eq", length(inp), total, False))], sinks):
        return "len == a + b"
    for (x, y) in ((pa, pb),):
        sp = lambda t, x=x: is_call(t, name="split_at_checked") and len(t[2]) == 2 and inp(t[2][0]) and x(t[2][1])
        rest = lambda t, sp=sp: t[0] == "field" and t[2] is None and t[3] == "1" and t[1][0] == "some" and sp(t[1][1])
        if sep_holds(prog, fn, [("split_at_checked(a) is Some", succ_fact(sp))], sinks, require_fail_err=False) and \
                sep_holds(prog, fn, [("rest.len()==b", cmp_fact("eq", length(rest), y, False))], sinks, require_fail_err=False):
            return "split_at_checked(a) is Some and rest.len() == b"
    return None


def culprits_accessor(ctx):
    """Error::culprits() names exactly what the error value carries: for every variant with a `culprit`/`culprits` field the result
    is built from that field; for every other variant it is empty (decided per variant on the function's path cases)"""
    from .paths import function_cases, Unbounded
    P = ctx.prog
    key = "frost_core::error::Error::<C>::culprits"
    f = ctx.anchor(key)
    adt = P.adts.get("frost_core::error::Error")
    if not f or not adt:
        if f and not adt:
            ctx.violation("TAB", key, "error-enum-missing", "the Error enum was not found in the facts")
        return
    try:
        cases = function_cases(P, f)
    except Unbounded as e:
        ctx.violation("PROV", key, "culprits()-per-variant", "not analysable: %s" % e, f.loc)
        return
    by_variant = {}
    for c in cases:
        vs = {fa[2] for fa in c["facts"] if fa[0] == "variant" and base_of(fa[1]) == ("arg", 1)}
        for vn in vs:
            by_variant.setdefault(vn, []).append(c["value"])
    bad = []
    n_c = 0
    for var in adt["variants"]:
        vn = var["name"]
        cf = [x["name"] for x in var["fields"] if x["name"].startswith("culprit")]
        vals = by_variant.get(vn)
        if not vals:
            bad.append("%s: no case" % vn)
            continue
        for val in vals:
            if cf:
                n_c += 1
                if not mentions(val, lambda s_: s_[0] == "field" and s_[3] == cf[0] and s_[1][0] == "variant" and s_[1][2] == vn and base_of(s_[1][1]) == ("arg", 1)):
                    bad.append("%s: result %s does not come from its `%s` field" % (vn, fmt(val)[:60], cf[0]))
            elif mentions(val, lambda s_: s_ == ("arg", 1)) or not (is_call(val, name="new") or val[0] == "vec" and not val[1]):
                bad.append("%s: result %s is not the empty list" % (vn, fmt(val)[:60]))
    ctx.check(not bad and n_c >= 3, "PROV", key, "culprits()-per-variant",
              "Error::culprits() must return the culprit(s) carried by InvalidSignatureShare / InvalidProofOfKnowledge / "
              "InvalidSecretShare and nothing for every other variant: %s" % "; ".join(bad[:4]), f.loc)


def used_after_check(r, uses):
    """inside the element context r (returned by forall_loop / _forall: loop body, per-element closure, either in a helper): the
    blocks of r["fn"] satisfying `uses(block, call args)` are reachable only through the PASS edges of the per-element check"""
    F, V = r["fn"], r["view"]
    hits = set()
    for (bb, t, ci) in F.calls():
        if bb in r["body"] and uses(ci, V.call_args(bb)):
            hits.add(bb)
    if not hits:
        return False
    starts = sorted(r.get("some_targets") or [0]) if r["kind"] == "loop" else [0]
    reach = set()
    for s0 in starts:
        reach |= F.reach(s0, removed=frozenset(r["edges"]))
    return not (reach & hits)


def look_through(P, t):
    """ok(private helper(..)) -> the helper's Ok payload seen with the call's arguments (a value computed in an extracted helper)"""
    if t[0] == "ok" and is_call(t[1]):
        pays = ok_of(P, t[1])
        if len(pays) == 1 and pays[0] != t:
            return pays[0]
    return t




def produced_entries(r):
    """the (key, value) entries an element context produces: `map.insert(k, v)` in a loop body, or the `Ok((k, v))` / `(k, v)` a
    per-element closure returns: [(block, key term, value term)]"""
    F, V = r["fn"], r["view"]
    out = []
    if r["kind"] == "loop":
        for (bb, t, ci) in F.calls():
            if ci and ci.get("name") == "insert" and bb in r["body"]:
                a = V.call_args(bb)
                if len(a) == 3:
                    out.append((bb, a[1], a[2]))
        return out
    for (b, k, rv) in ret_writes(F):
        t = V.cx.operand(rv["ops"][0]) if k == "ok" else V.cx.rvalue(rv, (F.key, b, 0)) if k == "other" else None
        if t is not None and t[0] == "agg" and t[1] == "tuple" and len(t[4]) == 2:
            out.append((b, t[4][0][1], t[4][1][1]))
    return out


def blocks_after_check(r, blocks):
    """the given blocks of the element context are reachable only through the PASS edges of its per-element check"""
    F = r["fn"]
    starts = sorted(r.get("some_targets") or [0]) if r["kind"] == "loop" else [0]
    reach = set()
    for s0 in starts:
        reach |= F.reach(s0, removed=frozenset(r["edges"]))
    return bool(blocks) and not (reach & set(blocks))


def call_info(P, t):
    """(callee info dict, terminator) of the call a term was built from, found through its site — generic arguments and argument
    types are not part of the term"""
    if not is_call(t) or not t[3]:
        return None, None
    site = t[3]
    key = site[2] if site[0] == "inl" else site[0]
    bb = site[-1]
    f = P.fns.get(key)
    if f is None or not f.has_body or not isinstance(bb, int) or bb >= len(f.blocks):
        return None, None
    term = f.blocks[bb].term
    from .mir import callee_of
    ci = callee_of(term)
    if ci is None or ci.get("path") != t[1]:
        return None, None
    return ci, term
