"""Path-sensitive view of a loop body (engine D, second half): the per-iteration transfer of value accumulators.

The body of a natural loop with its back edges removed is a DAG; its acyclic paths from the body entry (the `Some` side of
the driving `next()`, or the header for iterator-less loops) to the back edge are enumerated (bounded) and along each the reaching
definitions are composed into engine-B provenance terms (a path-sensitive dataflow pass without merge points: nothing is
executed, no values are modelled, no solver).  The result of a path is (the branch facts on
its edges, the value of every tracked local at the back edge, expressed over the values at the start of the iteration).
Rules classify paths by fact matchers (`x_i == x_j`, `x is Some`, `bit i of n set`) and compare the transfer per class with the
expected step — whatever the spelling: two scalars or one tuple, `if let` or `match`, assignments in the arms or one assignment
of a `match` value after them."""
from .mir import is_bare
from .terms import TermCx, simp, proj_key

PATH_LIMIT = 512


class Unbounded(Exception):
    pass


def body_paths(fn, lp, starts):
    """[(blocks, edges, end)] acyclic paths inside the loop body from `starts`; end = 'back' (reaches the header again) or
    ('exit', target block)"""
    out = []
    hdr = lp["header"]
    body = lp["body"]

    def walk(b, blocks, edges):
        if len(out) > PATH_LIMIT:
            raise Unbounded("more than %d paths through the loop body" % PATH_LIMIT)
        blocks = blocks + [b]
        succ = fn.succs()[b]
        if not succ:
            out.append((blocks, edges, ("stop", b)))
            return
        for (t, lab) in succ:
            e = (b, t, lab)
            if t == hdr:
                out.append((blocks, edges + [e], "back"))
            elif t not in body:
                out.append((blocks, edges + [e], ("exit", t)))
            elif t in blocks:
                out.append((blocks, edges + [e], ("inner-cycle", t)))
            else:
                walk(t, blocks, edges + [e])
    for s in starts:
        walk(s, [], [])
    return out


def exec_path(prog, fn, blocks, tracked, init=None, like=None):
    """reaching definitions along one path, composed into terms: env {local: term}; tracked locals start as ('loopvar', fn.key, l) (their value at the
    start of the iteration).  Returns env at the end of the path."""
    env = {l: ("loopvar", fn.key, l) for l in tracked}
    if init:
        env.update(init)
    cx = TermCx(prog, fn, like.argsub, like.depth, frames=like.frames) if like is not None else TermCx(prog, fn)
    cx.track_mut = False

    def fresh():
        cx.memo = dict(env)
        cx.lazy = {}; cx.op_memo = {}
        cx.busy = set()

    for b in blocks:
        blk = fn.blocks[b]
        for i, s in enumerate(blk.stmts):
            if s["k"] != "assign":
                continue
            fresh()
            val = cx.rvalue(s["rv"], (fn.key, b, i))
            store(cx, fn, env, s["place"], val)
        t = blk.term
        if t["k"] == "call" and t.get("dest") is not None:
            fresh()
            val = cx.call(t, (fn.key, b))
            store(cx, fn, env, t["dest"], val)
    fresh()
    return env, cx


def store(cx, fn, env, place, val):
    l = place["l"]
    if is_bare(place):
        env[l] = val
        return
    if place["p"] == ["*"]:
        env[("deref", l)] = val      # `*r = val`: recorded under the reference (elementwise updates through iter_mut())
        return
    if any(e == "*" for e in place["p"]):
        return          # write through a reference: not a value accumulator
    base = env.get(l)
    if base is None:
        base = cx.local(l)
    key = proj_key(place["p"])
    if base[0] == "updated":
        upd = tuple((k, x) for (k, x) in base[2] if k != key) + ((key, val),)
        env[l] = ("updated", base[1], upd)
    elif base[0] == "agg" and len(key) == 1:
        env[l] = base[:4] + (tuple((n, (val if n == key[0] else x)) for (n, x) in base[4]),)
    else:
        env[l] = ("updated", base, ((key, val),))


def component(t, comp):
    """value of an accumulator that is a whole local (comp None) or one component of a tuple/struct local"""
    if comp is None:
        return t
    return simp(("field", t, None, comp))


def loop_transfer(prog, fn, v, lp, tracked):
    """[{facts: [fact on each edge of the path], end, values: {local: term}}] for every path of one iteration"""
    starts = sorted(lp["some_targets"]) or [lp["header"]]
    facts_by_edge = {}
    for (e, fa) in v.facts:
        facts_by_edge.setdefault(e, []).append(fa)
    out = []
    for (blocks, edges, end) in body_paths(fn, lp, starts):
        env, cx = exec_path(prog, fn, blocks, tracked, like=v.cx)
        out.append({"facts": [fa for e in edges for fa in facts_by_edge.get(e, [])], "end": end,
                    "values": {l: env[l] for l in tracked}, "blocks": blocks, "edges": edges,
                    "deref_writes": {k[1]: x for k, x in env.items() if isinstance(k, tuple) and k[0] == "deref"}, "cx": cx})
    return out


def fn_paths(fn, summarise_loops=False):
    """acyclic paths of a function from entry to its return blocks.  With summarise_loops, a natural loop is one step: the path
    enters at the header and continues at one of the loop's exit edges (the block list then holds ("loop", header) — what the loop
    did to the state is not executed here; the caller reads the loop-modified locals from the ordinary, loop-aware terms)."""
    loops = fn.loops()
    if loops and not summarise_loops:
        raise Unbounded("closure body contains a loop")
    outer = [lp for lp in loops if not any(o is not lp and lp["body"] < o["body"] for o in loops)]
    by_header = {lp["header"]: lp for lp in outer}
    out = []

    def walk(b, blocks, edges):
        if len(out) > PATH_LIMIT:
            raise Unbounded("more than %d paths" % PATH_LIMIT)
        if b in by_header:
            lp = by_header[b]
            exits = [(s_, t, lab) for s_ in sorted(lp["body"]) for (t, lab) in fn.succs()[s_] if t not in lp["body"]]
            for (s_, t, lab) in exits:
                walk(t, blocks + [("loop", b)], edges + [(s_, t, lab)])
            return
        blocks = blocks + [b]
        succ = fn.succs()[b]
        if not succ:
            out.append((blocks, edges, fn.blocks[b].term["k"]))
            return
        for (t, lab) in succ:
            walk(t, blocks, edges + [(b, t, lab)])
    walk(0, [], [])
    return out


def loop_clobbers(fn, lp):
    """locals whose value a loop may change: assigned in its body, written by a call there, or borrowed mutably there"""
    out = set()
    for b in lp["body"]:
        blk = fn.blocks[b]
        for s in blk.stmts:
            if s["k"] == "assign":
                out.add(s["place"]["l"])
                rv = s["rv"]
                if rv.get("k") == "ref" and rv.get("mut") and rv.get("place"):
                    out.add(rv["place"]["l"])
        t = blk.term
        if t["k"] == "call":
            if t.get("dest") is not None:
                out.add(t["dest"]["l"])
    return out


def closure_cases(prog, clo, argmap):
    """per-call cases of a closure term ('closure', key, captures) with parameters bound by argmap {2: ACC, 3: ITEM}:
    [{facts, value}] over the caller's vocabulary"""
    from .lib import FnView
    cf = prog.fns.get(clo[1]) if isinstance(clo, tuple) and clo and clo[0] == "closure" else None
    if cf is None or not cf.has_body:
        return None
    sub = {1: ("agg", "tuple", None, None, tuple((str(n), val) for n, val in enumerate(clo[2])))}
    sub.update(argmap)
    v = FnView(prog, cf, sub)
    facts_by_edge = {}
    for (e, fa) in v.facts:
        facts_by_edge.setdefault(e, []).append(fa)
    out = []
    for (blocks, edges, end) in fn_paths(cf):
        if end != "return":
            continue
        env = {}
        cx = TermCx(prog, cf, sub, 1)
        cx.track_mut = False
        for b in blocks:
            blk = cf.blocks[b]
            for i, s in enumerate(blk.stmts):
                if s["k"] != "assign":
                    continue
                cx.memo = dict(env)
                cx.lazy = {}; cx.op_memo = {}
                cx.busy = set()
                store(cx, cf, env, s["place"], cx.rvalue(s["rv"], (cf.key, b, i)))
            t = blk.term
            if t["k"] == "call" and t.get("dest") is not None:
                cx.memo = dict(env)
                cx.lazy = {}; cx.op_memo = {}
                cx.busy = set()
                store(cx, cf, env, t["dest"], cx.call(t, (cf.key, b)))
        out.append({"facts": [fa for e in edges for fa in facts_by_edge.get(e, [])], "value": env.get(0, ("uninit",)), "end": "back"})
    return out


def iteration_cases(prog, fn, v, t):
    """Path-sensitive unified view of an accumulated value t (loop-carried `phi` or `.fold(init, |acc, x| ..)`):
    dict(source, init=[terms], cases=[{facts, value}] over ACC / ITEM, exits=[..], form) or None"""
    from .lib import ACC, ITEM, subst, loop_report, is_call
    if not isinstance(t, tuple) or not t:
        return None
    if t[0] == "call" and t[1].rsplit("::", 1)[-1] == "fold" and len(t[2]) == 3:
        src, init, clo = t[2]
        cases = closure_cases(prog, clo, {2: ACC, 3: ITEM})
        if cases is None:
            return None
        return {"source": src, "init": [init], "cases": cases, "early_exit": False, "form": "fold"}
    if t[0] == "phi" and t[1][0] == fn.key:
        local = t[1][1]
        for lp in loop_report(prog, fn):
            if local not in lp["acc"] or lp["iter_term"] is None:
                continue
            it = lp["iter_term"]
            item = lambda x, it=it: x[0] == "some" and is_call(x[1], name="next") and x[1][2] and x[1][2][0] == it
            lv = lambda x: x == ("loopvar", fn.key, local)
            m = [(lv, ACC), (item, ITEM)]
            cases = []
            for p in loop_transfer(prog, fn, v, lp, {local}):
                if p["end"] != "back":
                    continue
                cases.append({"facts": [subst(fa, m) for fa in p["facts"]], "value": subst(p["values"][local], m), "end": "back"})
            rpo = fn.rpo()
            cx = TermCx(prog, fn)
            cx.busy.add(local)
            init = []
            for d in fn.defs().get(local, []):
                if d[0] in ("assign", "call") and d[1] not in lp["body"]:
                    x = cx.rvalue(d[3], (fn.key, d[1], d[2])) if d[0] == "assign" else cx.call(d[2], (fn.key, d[1]))
                    init.append(subst(x, m))
            return {"source": it, "init": init, "cases": cases, "early_exit": any(c == "break" for _, c in lp["exits"]),
                    "form": "loop", "loop": lp}
    return None


def state_iteration(prog, fn, v, t):
    """Unified path-sensitive view of a traversal that carries a *state* of several accumulators, one of which (`r`) is the value
    t: `for x in S { a = f(a, x); r = g(r, a, x) }` with separate loop locals, or `S.fold((a0, r0), |(a, r), x| (.., ..)).k`.
    -> dict(source, form, init={name: term}, cases=[{facts, values={name: term}}], early_exit) with the state at the start of an
    iteration written ("st", name); names: "r" for the result component, "a0", "a1".. for the others.  None if not recognised."""
    from .lib import ACC, ITEM, subst, loop_report, is_call, mentions, strip_iter_calls
    if not isinstance(t, tuple) or not t:
        return None
    # ---- fold form
    comp = None
    fo = t
    if t[0] == "field" and t[2] is None and is_call(t[1], name="fold"):
        comp, fo = t[3], t[1]
    if is_call(fo, name="fold") and len(fo[2]) == 3:
        src, init, clo = fo[2]
        cases = closure_cases(prog, clo, {2: ACC, 3: ITEM})
        if cases is None:
            return None
        if comp is None:
            names = {None: "r"}
        else:
            if not (init[0] == "agg" and init[1] == "tuple"):
                return None
            idx = [n for n, _ in init[4]]
            others = [n for n in idx if n != comp]
            names = {comp: "r"}
            names.update({n: "a%d" % i for i, n in enumerate(others)})
        m = [((lambda x, c=c: x == (ACC if c is None else ("field", ACC, None, c))), ("st", nm)) for c, nm in names.items()]
        out_cases = []
        for c in cases:
            vals = {nm: subst(component(c["value"], cc), m) for cc, nm in names.items()}
            out_cases.append({"facts": [subst(fa, m) for fa in c["facts"]], "values": vals})
        init_ = {nm: component(init, cc) for cc, nm in names.items()}
        return {"source": strip_iter_calls(src), "form": "fold", "init": init_, "cases": out_cases, "early_exit": False}
    # ---- loop form
    if t[0] == "phi" and t[1][0] == fn.key:
        local = t[1][1]
        for lp in loop_report(prog, fn):
            if local not in lp["acc"] or lp["iter_term"] is None:
                continue
            it = lp["iter_term"]
            tracked = [local]
            for _ in range(4):
                paths = loop_transfer(prog, fn, v, lp, set(tracked))
                new = []
                for p in paths:
                    for l in tracked:
                        for l2 in lp["acc"]:
                            if l2 not in tracked and l2 not in new and mentions(p["values"][l], lambda s, l2=l2: s == ("loopvar", fn.key, l2)):
                                new.append(l2)
                if not new:
                    break
                tracked += new
            names = {local: "r"}
            names.update({l: "a%d" % i for i, l in enumerate([l for l in tracked if l != local])})
            item = lambda x, it=it: x[0] == "some" and is_call(x[1], name="next") and x[1][2] and x[1][2][0] == it
            m = [((lambda x, l=l: x == ("loopvar", fn.key, l)), ("st", nm)) for l, nm in names.items()] + [(item, ITEM)]
            cases = []
            for p in paths:
                if p["end"] != "back":
                    continue
                cases.append({"facts": [subst(fa, m) for fa in p["facts"]], "values": {names[l]: subst(p["values"][l], m) for l in tracked}})
            init_ = {}
            for l, nm in names.items():
                cx = TermCx(prog, fn)
                cx.busy.add(l)
                ds = [d for d in fn.defs().get(l, []) if d[0] in ("assign", "call") and d[1] not in lp["body"]]
                if len(ds) != 1:
                    return None
                d = ds[0]
                init_[nm] = cx.rvalue(d[3], (fn.key, d[1], d[2])) if d[0] == "assign" else cx.call(d[2], (fn.key, d[1]))
            return {"source": strip_iter_calls(it), "form": "loop", "init": init_, "cases": cases,
                    "early_exit": any(c == "break" for _, c in lp["exits"]), "loop": lp}
    return None


def function_cases(prog, fn, argsub=None):
    """Path-sensitive summary of a loop-free function: for every acyclic path from entry to a return, the branch facts evaluated
    *on that path* (a flag assigned differently in two arms has, on each path, the value of the arm taken) and the returned value:
    [{facts: [fact], value: term}]"""
    from .guards import switch_facts
    from .lib import accumulation_sites
    out = []
    loops = {lp["header"]: lp for lp in fn.loops()}
    for (blocks, edges, end) in fn_paths(fn, summarise_loops=True):
        if end != "return":
            continue
        env = {}
        cx = TermCx(prog, fn, argsub, 1 if argsub else 0)
        facts = []
        taken = {(e[0]): e for e in edges}
        for b in blocks:
            if isinstance(b, tuple):
                # a loop taken as one step: whatever it may have changed is read from the loop-aware terms from here on
                lp = loops[b[1]]
                for l in loop_clobbers(fn, lp) | set(accumulation_sites(fn, lp)):
                    env.pop(l, None)
                continue
            blk = fn.blocks[b]
            for i, s in enumerate(blk.stmts):
                if s["k"] != "assign":
                    continue
                cx.memo = dict(env)
                cx.lazy = {}; cx.op_memo = {}
                cx.busy = set()
                store(cx, fn, env, s["place"], cx.rvalue(s["rv"], (fn.key, b, i)))
            t = blk.term
            if t["k"] == "call" and t.get("dest") is not None:
                cx.memo = dict(env)
                cx.lazy = {}; cx.op_memo = {}
                cx.busy = set()
                store(cx, fn, env, t["dest"], cx.call(t, (fn.key, b)))
            elif t["k"] == "switch" and b in taken:
                cx.memo = dict(env)
                cx.lazy = {}; cx.op_memo = {}
                cx.busy = set()
                d = cx.operand(t["discr"])
                if d[0] == "const" and isinstance(d[2], int) and t["dty"] == "bool" and (taken[b][2] != "0") != bool(d[2]):
                    facts = None        # infeasible: a flag with a known value on this path, tested the other way
                    break
                for (e, fa) in switch_facts(fn, b, t, d):
                    if e == taken[b]:
                        facts.append(fa)
        if facts is None:
            continue
        cx.memo = dict(env)
        cx.lazy = {}; cx.op_memo = {}
        cx.busy = set()
        out.append({"facts": facts, "value": env.get(0, cx.local(0)), "blocks": blocks})
    return out
