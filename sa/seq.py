"""Byte-sequence view of terms (engine H, SEQ part): flattens Vec::new()+extend*/chain/concat/array constructions into
the ordered list of their components."""
from .terms import is_call

EXTENDERS = {"extend_from_slice", "extend", "push", "push_str", "append", "update", "chain_update"}
TRANSPARENT_WRAPPERS = {"index", "as_slice", "as_ref", "deref", "to_vec", "iter", "into_iter", "cloned", "copied", "collect", "from_iter",
                        "concat", "as_bytes_ref"}


def flatten(t):
    """-> list of component terms in concatenation order"""
    if not isinstance(t, tuple) or not t:
        return [t]
    h = t[0]
    if h == "mut":
        base = flatten(t[1]) if not _is_empty_ctor(t[1]) else []
        out = list(base)
        for o in t[2]:
            if o[1] == "insert" and len(o[2]) == 2 and o[2][0][0] == "const" and o[2][0][2] == 0:
                out = flatten(o[2][1]) + out          # insert(0, x): prepend
                continue
            if o[1] in EXTENDERS and o[2]:
                out += flatten(o[2][0])
            elif o[1] in ("index_mut", "as_mut", "deref_mut", "as_mut_slice", "reserve"):
                continue
            else:
                out.append(("op?", o[1]))
        return out
    if h == "iter":
        return flatten(t[1])
    if h == "vec":
        out = []
        for x in t[1]:
            out += flatten(x)
        return out
    if h == "call":
        name = t[1].rsplit("::", 1)[-1]
        if name == "chain" and len(t[2]) == 2:
            return flatten(t[2][0]) + flatten(t[2][1])
        if name == "concat" and len(t[2]) == 1:
            inner = t[2][0]
            while isinstance(inner, tuple) and inner and inner[0] == "call" and inner[1].rsplit("::", 1)[-1] in ("as_slice", "as_ref", "deref", "iter") and inner[2]:
                inner = inner[2][0]
            if inner[0] == "agg" and inner[1] == "array":
                return flatten(inner)
            return [("each", inner)]        # the concatenation of every element of a collection, in order
        if name in TRANSPARENT_WRAPPERS and t[2]:
            return flatten(t[2][0])
    if h == "agg" and t[1] == "array":
        out = []
        for _, x in t[4]:
            out += flatten(x)
        return out
    if h in ("ok", "some"):
        return [t]
    return [t]


def _is_empty_ctor(t):
    return is_call(t, name="new") or is_call(t, name="with_capacity") or (t[0] == "vec" and not t[1]) or is_call(t, name="default")
