"""Verdicts, violation keys, known findings, evidence files."""
import hashlib, json, os, sys, time

from . import facts
VERIF = os.path.dirname(os.path.dirname(os.path.abspath(__file__)))
EVID = os.path.join(VERIF, "evidence")
KNOWN = os.path.join(VERIF, "known_findings.json")


class Ctx:
    def __init__(self, prop, tier, prog, tree, seed=0, configs=("default",)):
        self.prop = prop
        self.tier = tier
        self.prog = prog
        self.tree = tree
        self.seed = seed
        self.configs = list(configs)
        self.instances = []
        self.violations = []
        self.info = []
        self.assumptions = []
        self.t0 = time.time()
        self.decided = ""
        self.undecided = ""
        self.floor = 0
        self.extra = {}
        self.core_only = False   # True when re-running on a frost-core-only feature configuration
        self.config = "default"

    # ---- recording ----
    def ok(self, rule, where, what, detail=None):
        self.instances.append({"rule": rule, "where": where, "what": what, "verdict": "holds",
                               **({"detail": detail} if detail else {})})

    def note(self, rule, where, what):
        self.info.append({"rule": rule, "where": where, "what": what})

    def violation(self, rule, where, what, text, loc=None, detail=None):
        """key = prop:rule:where:what (no line numbers)"""
        key = "%s:%s:%s:%s" % (self.prop, rule, where, what)
        self.instances.append({"rule": rule, "where": where, "what": what, "verdict": "VIOLATED", "text": text})
        self.violations.append({"key": key, "rule": rule, "where": where, "what": what, "text": text,
                                "loc": loc, "detail": detail})

    def check(self, cond, rule, where, what, text, loc=None, detail=None):
        if cond:
            self.ok(rule, where, what, detail)
        else:
            self.violation(rule, where, what, text, loc, detail)
        return cond

    def anchor(self, key, rule="anchor"):
        f = self.prog.fns.get(key)
        if f is None or not f.has_body:
            self.violation(rule, key, "anchor-missing",
                           "anchored function %s not found in the analysed program (renamed or removed): "
                           "the rule instance cannot be evaluated and fails closed" % key)
            return None
        # calls to private helpers that no rule names are expanded in place (sa/inline.py)
        if not hasattr(self.prog, "_expanded"):
            self.prog._expanded = {}
        if key not in self.prog._expanded:
            from .inline import expand
            self.prog._expanded[key] = expand(self.prog, f)
        return self.prog._expanded[key]

    # ---- finish ----
    def finish(self):
        known = {}
        if os.path.exists(KNOWN):
            with open(KNOWN) as f:
                for e in json.load(f).get("findings", []):
                    if e.get("status") == "open":
                        known[e["key"]] = e
        os.makedirs(os.path.join(EVID, "violations"), exist_ok=True)
        n_eval = len(self.instances)
        nontrivial = len({(i["rule"], i["where"], i["what"]) for i in self.instances})
        if n_eval < self.floor:
            self.violation("floor", "check", "instances-below-floor",
                           "only %d rule instances were evaluated, floor is %d: the rules match fewer sites than "
                           "were confirmed by hand" % (n_eval, self.floor))
        new = []
        kf = []
        for v in self.violations:
            if v["key"] in known:
                kf.append(v)
            else:
                new.append(v)
        for v in kf:
            print("KNOWN-FINDING: property=%s %s — %s" % (self.prop, v["key"], known[v["key"]].get("text", v["text"])))
        for v in new:
            h = hashlib.sha256(v["key"].encode()).hexdigest()[:12]
            path = os.path.join(EVID, "violations", "%s-%s.json" % (self.prop, h))
            with open(path, "w") as f:
                json.dump(v, f, indent=1, default=str)
            print("VIOLATION property=%s replay=%s" % (self.prop, path))
            print("  key:  %s" % v["key"])
            print("  rule: %s @ %s%s" % (v["rule"], v["where"], (" (" + v["loc"] + ")") if v.get("loc") else ""))
            print("  %s" % v["text"])
        samples = []
        for i in self.instances[:40]:
            samples.append(i)
        cov = {
            "explanation": ("DECIDED (structural clauses): %s  NOT DECIDED: %s  Method: static analysis of the "
                            "type-checked program (MIR dumped by a rustc_private driver from /repo's current tree, "
                            "tree hash %s); no frost code is executed." % (self.decided, self.undecided, self.tree)),
            "evaluations": n_eval,
            "distinct_nontrivial": nontrivial,
            "rule": "one evaluation = one rule instance (rule, anchor function, site) decided on the current tree; "
                    "an instance is non-trivial iff it matched a real construct in the MIR (anchor found and site "
                    "located) — instances whose anchor is missing are violations, not passes",
            "obligations": n_eval,
            "discharged": sum(1 for i in self.instances if i["verdict"] == "holds"),
            "samples": samples,
            "informational": self.info[:40],
            "analysed": {
                "crates": sorted(self.prog.crates.keys()),
                "mir_bodies": sum(1 for f in self.prog.fns.values() if f.has_body),
                "call_sites": sum(1 for f in self.prog.fns.values() if f.has_body for _ in f.calls()),
                "configurations": self.configs,
                "renamed_private_helpers_resolved_by_signature": dict(facts.ALIASES),
            },
            "known_findings_reported": [v["key"] for v in kf],
            "violation_keys": [v["key"] for v in new],
            "exhaustive": True,
        }
        cov.update(self.extra)
        ev = {
            "property_id": self.prop,
            "tier": self.tier,
            "seed": self.seed,
            "level": "other",
            "coverage": cov,
            "assumptions": self.assumptions + [
                "rustc nightly's MIR (opt-level 0) of /repo's source is a faithful rendering of the program "
                "the stable toolchain builds",
                "dependencies (curve libraries, serde, postcard, zeroize, alloc/core) behave as documented; they "
                "are not analysed",
            ],
            "wall_s": round(time.time() - self.t0, 2),
            "violations": len(new),
        }
        with open(os.path.join(EVID, self.prop + ".json"), "w") as f:
            json.dump(ev, f, indent=1, default=str)
        print("%s %s: %d rule instances, %d hold, %d known findings, %d violations (%.1fs)" % (
            self.prop, self.tier, n_eval, cov["discharged"], len(kf), len(new), time.time() - self.t0))
        return 1 if new else 0
