"""Engine B: operand provenance.  Turns a MIR operand into a structural term by walking reaching
definitions backwards through copies, moves, borrows, casts, transparent library wrappers
(clone/deref/borrow/Cow/`?`/ok_or), derive_getters getters and small branch-free workspace
wrappers (inlined, depth-limited).  No names of locals, no line numbers."""
import re

from .mir import callee_of, is_bare

INLINE_DEPTH = 5

TRANSPARENT_TRAIT = {
    # (trait last segment, method) whose result is, provenance-wise, the first argument
    ("Clone", "clone"), ("Deref", "deref"), ("DerefMut", "deref_mut"), ("Borrow", "borrow"),
    ("BorrowMut", "borrow_mut"), ("AsRef", "as_ref"), ("AsMut", "as_mut"), ("ToOwned", "to_owned"),
}
TRANSPARENT_PATH = {
    "core::option::Option::<T>::copied", "core::option::Option::<T>::cloned",
    "core::option::Option::<&T>::copied", "core::option::Option::<&T>::cloned",
    "core::option::Option::<T>::as_ref", "core::result::Result::<T, E>::as_ref",
    "alloc::borrow::Cow::<'_, B>::into_owned", "alloc::vec::Vec::<T, A>::as_slice",
    "alloc::vec::Vec::<T, A>::as_mut_slice", "alloc::slice::<impl [T]>::to_vec",
    "core::iter::traits::iterator::Iterator::by_ref", "core::iter::traits::iterator::Iterator::cloned",
    "core::iter::traits::iterator::Iterator::copied",
}
INT_BITS = {"u8": 8, "u16": 16, "u32": 32, "u64": 64, "u128": 128, "usize": 64,
            "i8": 8, "i16": 16, "i32": 32, "i64": 64, "i128": 128, "isize": 64}


def callee_path(ci):
    return ci["path"] if ci else None


class TermCx:
    def __init__(self, prog, fn, argsub=None, depth=0, inline=True, frames=()):
        self.prog = prog
        self.fn = fn
        self.argsub = argsub  # dict local index -> term (for inlined callees)
        self.depth = depth
        self.inline = inline
        self.memo = {}
        self.busy = set()
        self.track_mut = True
        self.ctx_bb = None   # block of the statement whose operands are being evaluated (use-site for in-place updates)
        self.lazy = {}       # local -> (base term, ops) : in-place updates are filtered by use site on retrieval
        self.op_memo = {}
        self.op_busy = set()
        self.frames = frames  # call-site frames of the inlining stack: distinguishes executions of one callee site

    def site(self, bb):
        if self.frames:
            return ("inl", self.frames, self.fn.key, bb)
        return (self.fn.key, bb)

    # ---- places / operands ----
    def operand(self, op):
        if "copy" in op:
            return self.place(op["copy"])
        if "move" in op:
            return self.place(op["move"])
        if "const" in op:
            c = op["const"]
            if "fn" in c:
                return ("fnref", c["fn"]["path"])
            if "bits" in c:
                return ("const", c["ty"], int(c["bits"]))
            if c.get("uneval"):
                # a named, non-generic constant of the workspace whose value the compiler evaluated (string or integer): the value
                # itself, so that `tagged_hash("TapTweak")` and `tagged_hash(TAP_TWEAK_TAG)` are the same term
                val = self.prog.consts.get(c["uneval"]) if hasattr(self.prog, "consts") else None
                if isinstance(val, str) and val.startswith('"') and val.endswith('"') and "str" in c["ty"]:
                    return ("const", "&str", val)
                if isinstance(val, str) and re.fullmatch(r"-?\d+(_?[iu](8|16|32|64|128|size))?", val):
                    m_ = re.match(r"-?\d+", val)
                    return ("const", c["ty"], int(m_.group(0)))
                return ("const", c["ty"], "uneval:" + c["uneval"])
            return ("const", c["ty"], c["c"])
        return ("unknown", "operand")

    def place(self, p):
        t = self.local(p["l"])
        for e in p["p"]:
            t = self.project(t, e)
        return t

    def project(self, t, e):
        if e == "*":
            return t
        if "f" in e:
            if e.get("tuple") or e.get("adt") is None:
                return self.some_map(simp(("field", t, None, str(e["f"]))))
            return self.some_map(simp(("field", t, e["adt"], e["n"])))
        if "downcast" in e:
            return ("variant", t, e["downcast"])
        if "idx" in e:
            return ("index", t, self.local(e["idx"]))
        if "cidx" in e:
            return ("cindex", t, e["cidx"], e["from_end"])
        if "subslice" in e:
            return ("subslice", t, tuple(e["subslice"]), e["from_end"])
        return ("proj", t, str(e))

    def some_map(self, r):
        """payload of `opt.map(|x| f(x))` when it is Some: f(payload of opt), for a branch-free closure"""
        if r[0] == "some" and is_call(r[1], name="map") and "option::Option" in r[1][1] and len(r[1][2]) == 2 \
                and r[1][2][1][0] == "closure" and self.depth < INLINE_DEPTH and self.inline:
            clo = r[1][2][1]
            cf = self.prog.fns.get(clo[1])
            if cf is not None and cf.has_body and simple_wrapper(cf):
                sub = {1: ("agg", "tuple", None, None, tuple((str(n), val) for n, val in enumerate(clo[2]))),
                       2: ("some", r[1][2][0])}
                return TermCx(self.prog, cf, sub, self.depth + 1, frames=self.frames + (("clo", clo[1]),)).local(0)
        return r

    def _precedes(self, op_bb):
        """can the update at the end of block op_bb execute before the statement being evaluated?"""
        if self.ctx_bb is None:
            return True
        key = ("succreach", op_bb)
        r = self.fn.__dict__.setdefault("_succ_reach", {}).get(op_bb)
        if r is None:
            r = set()
            for (t, _lab) in self.fn.succs().get(op_bb, ()):
                r |= self.fn.reach(t)
            self.fn.__dict__["_succ_reach"][op_bb] = r
        return self.ctx_bb in r

    def _with_ops(self, base, ops):
        """ops: [(bb, raw op)] evaluated lazily — the arguments of an update that cannot precede the use are never looked at (they
        may depend on that very use: `let n = buf.len(); .. buf.copy_from_slice(&input[..n])`)"""
        keep = []
        for rec in ops:
            bb, term, idx, path, nm = rec[:5]
            if not self._precedes(bb):
                continue
            key = (id(term), idx)
            if key not in self.op_memo:
                if key in self.op_busy:
                    continue
                self.op_busy.add(key)
                saved = self.ctx_bb
                self.ctx_bb = bb
                others = tuple(self.operand(a) for j, a in enumerate(term["args"]) if j != idx)
                self.ctx_bb = saved
                self.op_busy.discard(key)
                self.op_memo[key] = ("op", nm, others, self.site(bb), path)
            keep.append(self.op_memo[key])
        return ("mut", base, tuple(keep)) if keep else base

    def local(self, l):
        if l in self.lazy:
            return self._with_ops(*self.lazy[l])
        if l in self.memo:
            return self.memo[l]
        is_arg = 1 <= l <= self.fn.arg_count
        if l in self.busy:
            return ("loopvar", self.fn.key, l)
        self.busy.add(l)
        ds = self.fn.defs().get(l, [])
        whole = [d for d in ds if d[0] in ("assign", "call")]
        terms = []
        if is_arg:
            if self.argsub is not None and l in self.argsub:
                terms.append(self.argsub[l])
            else:
                terms.append(("arg", l))
        for d in whole:
            if d[0] == "assign":
                terms.append(self.rvalue(d[3], (self.fn.key, d[1], d[2])))
            else:
                terms.append(self.call(d[2], self.site(d[1])))
        partial = [d for d in ds if d[0] in ("partial", "partialcall")]
        if partial and len(terms) <= 1:
            # a value built field by field, or a struct with an overwritten field; reads of the value inside the
            # update expressions see the value before the update
            base = terms[0] if terms else ("uninit",)
            self.memo[l] = base
            upd = []
            for d in partial:
                if d[0] == "partial":
                    s = d[3]
                    if any(e == "*" for e in s["place"]["p"]) and self.fn.local_ty(l).startswith(("&", "*")):
                        continue  # write through a pointer: tracked at the pointee (mutations)
                    upd.append((proj_key(s["place"]["p"]), self.rvalue(s["rv"], (self.fn.key, d[1], d[2]))))
                else:
                    upd.append((proj_key(d[2]["dest"]["p"]), self.call(d[2], self.site(d[1]))))
            del self.memo[l]
            t = ("updated", base, tuple(upd)) if upd else base
        elif len(terms) == 1:
            t = terms[0]
        elif not terms:
            t = ("uninit",)
        else:
            # drop flag / loop accumulators: keep all defs
            uniq = []
            for x in terms:
                if x not in uniq:
                    uniq.append(x)
            t = uniq[0] if len(uniq) == 1 else ("phi", (self.fn.key, l), tuple(uniq))
        muts = self.fn.mutations().get(l) if self.track_mut else None
        if muts and self.fn.local_ty(l).replace("&mut ", "").replace("&", "").strip() in (self.fn.j.get("generics") or ()):
            muts = None  # a value of an opaque type parameter (the caller's rng): its internal state is not modelled
        if muts:
            ops = []
            for (bb, term, idx, path) in muts:
                ci = callee_of(term)
                nm = ci.get("name") if ci else "?"
                if ci and (ci.get("trait") or "").endswith("::Iterator"):
                    continue  # consuming an iterator is not an update of a collection
                ops.append((bb, term, idx, path, nm))
            if ops:
                # a use sees only the updates that can execute before it (a buffer's length read before it is filled is the
                # length of the unfilled buffer)
                self.busy.discard(l)
                self.lazy[l] = (t, tuple(ops))
                return self._with_ops(t, tuple(ops))
        self.busy.discard(l)
        self.memo[l] = t
        return t

    def rvalue(self, rv, site):
        saved = self.ctx_bb
        if isinstance(site, tuple) and len(site) >= 2 and isinstance(site[1], int) and site[0] == self.fn.key:
            self.ctx_bb = site[1]
        try:
            return self._rvalue(rv, site)
        finally:
            self.ctx_bb = saved

    def _rvalue(self, rv, site):
        k = rv["k"]
        if k == "use":
            return self.operand(rv["op"])
        if k == "ref" or k == "rawptr":
            return self.place(rv["place"])
        if k == "cast":
            a = self.operand(rv["op"])
            fr, to = rv["from"], rv["to"]
            if fr in INT_BITS and to in INT_BITS:
                return ("cast", fr, to, a)
            if rv["kind"].startswith("PointerCoercion") or rv["kind"] in ("PtrToPtr", "Transmute"):
                return a if rv["kind"] != "Transmute" else ("cast", fr, to, a)
            return ("cast", fr, to, a)
        if k == "bin":
            return ("bin", rv["op"], self.operand(rv["a"]), self.operand(rv["b"]))
        if k == "un":
            if rv["op"] == "PtrMetadata":
                return ("len", self.operand(rv["a"]))
            return ("un", rv["op"], self.operand(rv["a"]))
        if k == "discr":
            vs = rv.get("variants")
            return ("discr", self.place(rv["place"]), tuple((int(v), n) for v, n in vs) if vs else None)
        if k == "agg":
            ops = tuple(self.operand(o) for o in rv["ops"])
            a = rv["agg"]
            if a == "adt":
                if rv["adt"] == "alloc::borrow::Cow" and len(ops) == 1:
                    return ops[0]
                return simp(("agg", "adt", rv["adt"], rv["variant"], tuple(zip(rv["fields"], ops))))
            if a == "tuple":
                return ("agg", "tuple", None, None, tuple((str(i), o) for i, o in enumerate(ops)))
            if a == "array":
                return ("agg", "array", None, None, tuple((str(i), o) for i, o in enumerate(ops)))
            if a == "closure":
                return ("closure", rv["closure"], ops)
            return ("agg", "other", None, None, tuple((str(i), o) for i, o in enumerate(ops)))
        if k == "repeat":
            return ("repeat", self.operand(rv["op"]), rv["n"])
        return ("unknown", rv.get("dbg", k)[:60])

    def call(self, term, site):
        saved = self.ctx_bb
        if isinstance(site, tuple) and site and isinstance(site[-1], int):
            self.ctx_bb = site[-1]
        try:
            return self._call(term, site)
        finally:
            self.ctx_bb = saved

    def _call(self, term, site):
        ci = callee_of(term)
        args = tuple(self.operand(a) for a in term["args"])
        if ci is None:
            return ("callind", self.operand(term["func"]), args, site)
        path = ci["path"]
        name = ci.get("name")
        tr = ci.get("trait")
        # transparent wrappers
        trl = tr.rsplit("::", 1)[-1] if tr else None
        if path in TRANSPARENT_PATH or (trl, name) in TRANSPARENT_TRAIT:
            return args[0]
        if trl == "IntoIterator" and name == "into_iter":
            return ("iter", args[0])
        if trl == "Try" and name == "branch":
            return ("try", args[0])
        if trl == "FromResidual":
            return ("residual", args[0])
        if path.endswith("::ok_or") and "Option" in path:
            return ("ok_or", args[0], args[1])
        if path.endswith("::ok_or_else") and "Option" in path:
            return ("ok_or", args[0], args[1])
        if path.endswith("::map_err") and "Result" in path:
            return ("map_err", args[0], args[1])
        if trl in ("From", "Into") and name in ("from", "into"):
            st = ci.get("gargs", [])
            if len(st) == 2 and st[0] in INT_BITS and st[1] in INT_BITS:
                fr, to = (st[1], st[0]) if name == "from" else (st[0], st[1])
                return ("cast", fr, to, args[0])
            if len(st) == 2 and st[0] == st[1]:
                return args[0]
        if name == "box_assume_init_into_vec_unsafe" and term["args"]:
            # vec![a, b, ..]: the elements are written through a raw pointer into the uninitialised box
            return ("vec", self.box_contents(term["args"][0]))
        # inline small branch-free workspace wrappers
        if self.inline and self.depth < INLINE_DEPTH:
            fs = self.prog.resolve_call(ci, generic_join=False)
            if len(fs) == 1 and simple_wrapper(fs[0]):
                f = fs[0]
                sub = {i + 1: a for i, a in enumerate(args)}
                cx = TermCx(self.prog, f, sub, self.depth + 1, frames=self.frames + (site,))
                return cx.local(0)
        return ("call", path, args, site, ci.get("self_ty") if tr else None)


def _box_contents(self, op):
    p = op.get("move") or op.get("copy")
    if p is None:
        return ()
    root = p["l"]
    # locals that are pointers derived from the box
    alias = {root}
    changed = True
    defs = self.fn.defs()
    # backwards: the box may have been moved through temporaries
    todo = [root]
    while todo:
        l = todo.pop()
        for d in defs.get(l, []):
            if d[0] == "assign" and d[3]["k"] == "use":
                o = d[3]["op"]
                src = o.get("copy") or o.get("move")
                if src is not None and not src["p"] and src["l"] not in alias:
                    alias.add(src["l"])
                    todo.append(src["l"])
    while changed:
        changed = False
        for l, ds in defs.items():
            if l in alias:
                continue
            for d in ds:
                if d[0] != "assign":
                    continue
                rv = d[3]
                src = None
                if rv["k"] in ("use", "cast"):
                    o = rv["op"]
                    src = o.get("copy") or o.get("move")
                elif rv["k"] in ("ref", "rawptr"):
                    src = rv["place"]
                if src is not None and src["l"] in alias:
                    alias.add(l)
                    changed = True
                    break
    out = []
    for l in sorted(alias):
        for d in defs.get(l, []):
            if d[0] == "partial" and any(e == "*" for e in d[3]["place"]["p"]):
                out.append(self.rvalue(d[3]["rv"], (self.fn.key, d[1], d[2])))
    return tuple(out)


TermCx.box_contents = _box_contents


def proj_key(p):
    out = []
    for e in p:
        if e == "*":
            continue
        if "f" in e:
            out.append(e.get("n", str(e["f"])))
        elif "downcast" in e:
            out.append("as:" + e["downcast"])
        else:
            out.append("?")
    return tuple(out)


_simple_cache = {}

# Workspace functions that the rule tables refer to *by name* stay opaque (named) calls even though they are
# branch-free; every other branch-free function without higher-order calls (getters, constructors, converters and any
# newly extracted private helper) is transparent, whatever its size — so extracting or inlining a helper does not
# change the terms the rules see.
NOINLINE = {"cmp", "randomize", "tweak", "challenge", "nonce_generate_from_random_bytes", "compute_signature_share",
            "default_sign", "tagged_hash", "fmt"}


def simple_wrapper(f):
    """branch-free, loop-free, no assert, no higher-order calls: getters, newtype constructors, to_scalar, helpers"""
    if f.key in _simple_cache:
        return _simple_cache[f.key]
    if f.name in NOINLINE:
        _simple_cache[f.key] = False
        return False
    ok = f.has_body
    ncalls = 0
    if ok:
        for b in f.normal_blocks():
            t = f.blocks[b].term
            if t["k"] == "switch" or t["k"] == "assert":
                ok = False
                break
            if t["k"] == "call":
                ncalls += 1
                ci = callee_of(t)
                if ci and (ci.get("closures") and ci.get("name") not in ("map_err", "ok_or_else", "unwrap_or_else")):
                    ok = False  # higher-order calls (closures) stay opaque (named) calls
    if ncalls > 40:
        ok = False
    _simple_cache[f.key] = ok
    return ok


def simp(t):
    """local simplifications"""
    if t[0] == "field":
        _, base, adt, name = t
        if base[0] == "bin" and base[1].endswith("WithOverflow") and name == "0":
            return ("bin", base[1][:-len("WithOverflow")], base[2], base[3])
        if base[0] == "agg":
            for fn_, ft in base[4]:
                if fn_ == name:
                    return ft
        if base[0] == "variant":
            inner, v = base[1], base[2]
            if name == "0":
                if v == "Continue" and inner[0] == "try":
                    return okval(inner[1])
                if v == "Break" and inner[0] == "try":
                    return ("errval", inner[1])
                if v == "Ok":
                    return okval(inner)
                if v == "Some":
                    return ("some", inner)
                if v == "Err":
                    return ("errval", inner)
        if base[0] == "updated":
            for k, v in base[2]:
                if k == (name,):
                    return v
            return simp(("field", base[1], adt, name))
        if base[0] == "mut":
            # in-place updates through a reference to this field (or to the whole value) travel with the field
            inner = simp(("field", base[1], adt, name))
            ops = tuple(("op", o[1], o[2], o[3], o[4][1:]) for o in base[2] if len(o) > 4 and o[4] and o[4][0] == name)
            whole = tuple(o for o in base[2] if len(o) <= 4 or not o[4])
            if ops or whole:
                return ("mut", inner, ops + whole)
            return inner
    return t


def okval(r):
    if r[0] == "ok_or":
        x = r[1]
        # `cond.then_some(v).ok_or(e)`: the payload, when there is one, is v
        if x[0] == "call" and x[1].rsplit("::", 1)[-1] == "then_some" and "bool" in x[1] and len(x[2]) == 2:
            return x[2][1]
        return ("some", x)
    if r[0] == "map_err":
        return okval(r[1])
    if r[0] == "agg" and r[2] == "core::result::Result" and r[3] == "Ok":
        return r[4][0][1]
    return ("ok", r)


# ---------- generic helpers over terms ----------

def subterms(t):
    yield t
    if isinstance(t, tuple):
        rest = t[1:]
        if t and t[0] == "op":
            rest = (t[2],)          # (name, args, site, field path): only the arguments are terms
        elif t and t[0] == "call":
            rest = (t[2],)
        for x in rest:
            if isinstance(x, tuple):
                # tuples of terms or (name, term) pairs
                if x and isinstance(x[0], str) and x[0] in _HEADS:
                    yield from subterms(x)
                else:
                    for y in x:
                        if isinstance(y, tuple):
                            if y and isinstance(y[0], str) and y[0] in _HEADS:
                                yield from subterms(y)
                            else:
                                for z in y:
                                    if isinstance(z, tuple) and z and isinstance(z[0], str) and z[0] in _HEADS:
                                        yield from subterms(z)


_HEADS = {"acc", "item", "item2", "st", "mut", "op", "vec", "arg", "const", "fnref", "field", "variant", "index", "cindex", "subslice", "proj", "loopvar", "updated",
          "uninit", "phi", "cast", "bin", "un", "len", "discr", "agg", "closure", "repeat", "unknown", "callind",
          "iter", "try", "residual", "ok_or", "map_err", "call", "some", "ok", "errval"}


def mentions(t, pred):
    return any(pred(s) for s in subterms(t))


def is_call(t, suffix=None, name=None):
    if not (isinstance(t, tuple) and t and t[0] == "call"):
        return False
    if suffix is not None and not t[1].endswith(suffix):
        return False
    if name is not None and t[1].rsplit("::", 1)[-1] != name:
        # `C::from_iter(it)` is `it.collect::<C>()`
        if not (name == "collect" and t[1].rsplit("::", 1)[-1] == "from_iter" and len(t[2]) == 1):
            return False
    return True


def is_field(t, adt_suffix, name, base=None):
    if not (isinstance(t, tuple) and t and t[0] == "field"):
        return False
    if t[3] != name:
        return False
    if adt_suffix is not None and not (t[2] or "").endswith(adt_suffix):
        return False
    if base is not None and not base(t[1]):
        return False
    return True


def strip_casts(t):
    """(term, narrowed?) peeling integer casts"""
    narrowed = False
    while isinstance(t, tuple) and t:
        if t[0] == "cast":
            fr, to = t[1], t[2]
            if fr in INT_BITS and to in INT_BITS and INT_BITS[to] < INT_BITS[fr]:
                narrowed = True
            t = t[3]
        elif t[0] in ("ok", "some") and isinstance(t[1], tuple) and t[1] and t[1][0] == "call" and \
                t[1][1].rsplit("::", 1)[-1] in ("try_from", "try_into") and len(t[1][2]) == 1:
            # checked integer conversion: the success value equals the operand (overflow is an Err, not a wrap)
            t = t[1][2][0]
        else:
            break
    return t, narrowed


def fmt(t, depth=0):
    """compact human-readable rendering for evidence/reports"""
    if not isinstance(t, tuple) or not t:
        return str(t)
    if depth > 8:
        return "…"
    h = t[0]
    f = lambda x: fmt(x, depth + 1)
    if h == "arg":
        return "arg%d" % t[1]
    if h == "acc":
        return "ACC"
    if h == "item":
        return "ITEM"
    if h == "const":
        return str(t[2])
    if h == "field":
        return "%s.%s" % (f(t[1]), t[3])
    if h == "variant":
        return "(%s as %s)" % (f(t[1]), t[2])
    if h == "call":
        return "%s(%s)" % (short(t[1]), ", ".join(f(a) for a in t[2]))
    if h == "cast":
        return "(%s as %s)" % (f(t[3]), t[2])
    if h == "bin":
        return "%s(%s, %s)" % (t[1], f(t[2]), f(t[3]))
    if h == "un":
        return "%s(%s)" % (t[1], f(t[2]))
    if h in ("some", "ok", "errval", "iter", "try", "residual", "len"):
        return "%s(%s)" % (h, f(t[1]))
    if h == "ok_or":
        return "ok_or(%s)" % f(t[1])
    if h == "map_err":
        return "map_err(%s)" % f(t[1])
    if h == "discr":
        return "discr(%s)" % f(t[1])
    if h == "agg":
        return "%s{%s}" % (short(t[2] or t[1]) + ("::" + t[3] if t[3] else ""), ", ".join("%s: %s" % (k, f(v)) for k, v in t[4]))
    if h == "phi":
        return "phi(%s)" % ", ".join(f(x) for x in t[2])
    if h == "closure":
        return "closure[%s](%s)" % (short(t[1]), ", ".join(f(x) for x in t[2]))
    if h == "updated":
        return "%s with {%s}" % (f(t[1]), ", ".join("%s: %s" % (".".join(k), f(v)) for k, v in t[2]))
    if h == "fnref":
        return short(t[1])
    if h == "vec":
        return "vec![%s]" % ", ".join(f(x) for x in t[1])
    if h == "mut":
        return "%s{%s}" % (f(t[1]), "; ".join("%s(%s)" % (o[1], ", ".join(f(x) for x in o[2])) for o in t[2]))
    if h == "loopvar":
        return "loopvar_%d" % t[2]
    return h + "(…)"


def short(p):
    if p is None:
        return "?"
    p = re.sub(r"<[^<>]*>", "", p)
    p = re.sub(r"<[^<>]*>", "", p)
    parts = [x for x in p.split("::") if x]
    return "::".join(parts[-2:]) if len(parts) >= 2 else p
