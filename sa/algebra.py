"""Engine H: algebraic normal forms for sibling agreement.

Scalars are commutative-ring polynomials over leaf symbols; group elements are module terms (element symbol ->
scalar polynomial).  Terms come from engine B; arithmetic is read off the Add/Sub/Mul/Neg trait calls (their self type
decides the sort); everything else is an uninterpreted leaf.  A single bottom-up pass, no path enumeration, no solver.
`ite(p, a, b)` (a phi of exactly two alternatives selected by a predicate symbol) is p*a + (1-p)*b with p*p = p."""
from .terms import is_call, fmt


class Unanalysable(Exception):
    pass


# ---- scalar polynomials: {monomial(tuple of sorted symbols): int} ----

def P(c=0):
    return {(): c} if c else {}


def sym(name):
    return {(name,): 1}


def padd(a, b, k=1):
    r = dict(a)
    for m, c in b.items():
        r[m] = r.get(m, 0) + k * c
        if r[m] == 0:
            del r[m]
    return r


def pmul(a, b, idem=()):
    r = {}
    for m1, c1 in a.items():
        for m2, c2 in b.items():
            m = list(m1) + list(m2)
            # idempotent predicate symbols: p*p = p
            mm = []
            for s in sorted(m):
                if s in idem and s in mm:
                    continue
                mm.append(s)
            m = tuple(mm)
            r[m] = r.get(m, 0) + c1 * c2
            if r[m] == 0:
                del r[m]
    return r


# ---- module terms: {element symbol: scalar polynomial} ----

def eadd(a, b, k=1):
    r = {s: dict(p) for s, p in a.items()}
    for s, p in b.items():
        r[s] = padd(r.get(s, {}), p, k)
        if not r[s]:
            del r[s]
    return r


def escale(a, p, idem=()):
    r = {}
    for s, q in a.items():
        x = pmul(q, p, idem)
        if x:
            r[s] = x
    return r


def esubst(e, env, idem=()):
    """substitute element symbols by module terms and scalar symbols by polynomials"""
    out = {}
    for s, p in e.items():
        p2 = psubst(p, env, idem)
        if s in env and isinstance(env[s], tuple) and env[s][0] == "elem":
            out = eadd(out, escale(env[s][1], p2, idem))
        else:
            out = eadd(out, {s: p2})
    return out


def psubst(p, env, idem=()):
    out = {}
    for m, c in p.items():
        term = P(c)
        for s in m:
            if s in env and isinstance(env[s], tuple) and env[s][0] == "scal":
                term = pmul(term, env[s][1], idem)
            else:
                term = pmul(term, sym(s), idem)
        out = padd(out, term)
    return out


SCALAR_HINTS = ("::Scalar", "Scalar<", "scalar::Scalar", "EdwardsScalar")
ELEM_HINTS = ("::Element", "Point", "Element<")


def sort_of_type(ty):
    if ty is None:
        return None
    if any(h in ty for h in ELEM_HINTS) and "Scalar" not in ty.rsplit("::", 1)[-1]:
        return "elem"
    if any(h in ty for h in SCALAR_HINTS):
        return "scal"
    return None


class Alg:
    """converts engine-B terms to normal forms given a leaf table: list of (matcher, ('scal'|'elem', symbol))"""

    def __init__(self, leaves, idem=()):
        self.leaves = leaves
        self.idem = tuple(idem)

    def leaf(self, t):
        for m, r in self.leaves:
            if m(t):
                return r
        return None

    def val(self, t):
        """-> ('scal', poly) | ('elem', module term)"""
        lf = self.leaf(t)
        if lf is not None:
            return (lf[0], sym(lf[1]) if lf[0] == "scal" else {lf[1]: P(1)})
        if not isinstance(t, tuple) or not t:
            raise Unanalysable("non-term")
        h = t[0]
        if h == "agg" and t[1] == "adt" and len(t[4]) == 1:
            return self.val(t[4][0][1])          # newtype wrapper
        if h == "field" and t[3] in ("0", "element") and t[1][0] == "agg":
            return self.val(t)
        if h == "const":
            s = str(t[2])
            if "GENERATOR" in s or "BASEPOINT" in s:
                return ("elem", {"G": P(1)})
            if "IDENTITY" in s:
                return ("elem", {})
            if s.endswith("ZERO"):
                return ("scal", P(0))
            if s.endswith("ONE"):
                return ("scal", P(1))
        if h == "call":
            name = t[1].rsplit("::", 1)[-1]
            a = t[2]
            if name == "generator" and not a:
                return ("elem", {"G": P(1)})
            if name == "identity" and not a:
                return ("elem", {})
            if name == "zero" and not a:
                return ("scal", P(0))
            if name == "one" and not a:
                return ("scal", P(1))
            if name in ("add", "sub") and len(a) == 2 and ("::Add" in t[1] or "::Sub" in t[1]):
                x, y = self.val(a[0]), self.val(a[1])
                if x[0] != y[0]:
                    raise Unanalysable("sort mismatch in %s" % name)
                k = 1 if name == "add" else -1
                return (x[0], padd(x[1], y[1], k) if x[0] == "scal" else eadd(x[1], y[1], k))
            if name == "neg" and len(a) == 1 and "::Neg" in t[1]:
                x = self.val(a[0])
                return (x[0], padd({}, x[1], -1) if x[0] == "scal" else eadd({}, x[1], -1))
            if name == "mul" and len(a) == 2 and "::Mul" in t[1]:
                x, y = self.val(a[0]), self.val(a[1])
                if x[0] == "scal" and y[0] == "scal":
                    return ("scal", pmul(x[1], y[1], self.idem))
                if x[0] == "elem" and y[0] == "scal":
                    return ("elem", escale(x[1], y[1], self.idem))
                if x[0] == "scal" and y[0] == "elem":
                    return ("elem", escale(y[1], x[1], self.idem))
                raise Unanalysable("element * element")
            if name in ("to_scalar", "to_element", "value", "clone") and len(a) == 1:
                return self.val(a[0])
        raise Unanalysable("unmodelled term %s" % fmt(t)[:120])

    def ite(self, p, a, b):
        """p*a + (1-p)*b for a predicate symbol p"""
        x, y = self.val(a), self.val(b)
        if x[0] != y[0]:
            raise Unanalysable("ite sorts")
        ps = sym(p)
        one_minus = padd(P(1), ps, -1)
        if x[0] == "scal":
            return ("scal", padd(pmul(x[1], ps, self.idem), pmul(y[1], one_minus, self.idem)))
        return ("elem", eadd(escale(x[1], ps, self.idem), escale(y[1], one_minus, self.idem)))


def is_zero(v):
    return not v[1]


def show(v):
    def pm(p):
        if not p:
            return "0"
        return " + ".join(("%d*" % c if c != 1 else "") + ("*".join(m) if m else "1") for m, c in sorted(p.items()))
    if v[0] == "scal":
        return pm(v[1])
    return " + ".join("(%s)*%s" % (pm(p), s) for s, p in sorted(v[1].items())) or "O"
