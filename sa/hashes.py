"""Digest normal form (engine H, SEQ part): which bytes, in which order, go into which hash — whatever the API spelling.

  digest_nf(P, t) -> {"algo": str, "parts": [term | ("each", collection term)]} | None

Recognised (reviewed idiom table, RustCrypto `digest` traits):
  one-shot      Digest::digest(x)
  incremental   new()/default()/new_with_prefix(p), absorbed by update/chain/chain_update (in place or by value, in a loop over
                a collection = ("each", S), or `S.iter().fold(H, |h, x| h.chain(x))`), finished by finalize / finalize_fixed /
                finalize_xof (+ read into a buffer) / finalize_xof_into
  plumbing      into / as_ref / as_slice / from, `buf.copy_from_slice(d)`, `reader.read(&mut buf)`
  helpers       a workspace function whose result has a digest normal form, instantiated with the call's arguments; a literal
                array passed for an ("each", S) part is expanded to its elements."""
from .terms import TermCx, is_call, fmt
from .seq import flatten

ABSORB = {"update", "chain", "chain_update"}
FINAL = {"finalize", "finalize_fixed", "finalize_xof", "finalize_reset", "finalize_boxed"}
PLUMB = {"into", "as_ref", "as_slice", "deref", "from", "as_bytes_ref", "clone", "to_vec", "as_mut"}


def algo_of(t):
    """hash algorithm = the self type of the constructor / one-shot call (sha2::Sha512, shake::Shake<136>, sha2::Sha256)"""
    return t[4] if len(t) > 4 and isinstance(t[4], str) and t[4] else t[1]


def _site_fn(P, site):
    key = site[2] if site and site[0] == "inl" else site[0]
    return P.fns.get(key), site[-1]


def _absorbed(P, op):
    """parts contributed by an in-place absorb op (update) at its site: per-element if it sits in a loop over a collection"""
    from .lib import loop_report, body_reach, strip_iter_calls, on_every_success_path, FnView
    fn, bb = _site_fn(P, op[3])
    arg = op[2][0]
    if fn is None:
        return None
    lps = [lp for lp in loop_report(P, fn) if bb in lp["body"]]
    if not lps:
        if not on_every_success_path(fn, bb):
            return None
        return flatten(arg)
    if len(lps) > 1:
        return None
    lp = lps[0]
    it = lp["iter_term"]
    if it is None or any(c == "break" for _, c in lp["exits"]):
        return None
    _, back = body_reach(fn, lp, list(lp["some_targets"]), removed_blocks={bb})
    if back:
        return None
    # the element itself (possibly inlined frames rewrite the iterator: compare structurally on `next(iter(..))`)
    if arg[0] == "some" and is_call(arg[1], name="next"):
        src = arg[1][2][0]
        return [("each", strip_iter_calls(src))]
    return None


def hasher_nf(P, h, depth=0):
    """hasher state term -> {"algo", "parts"}"""
    from .lib import closure_body, ACC, ITEM, strip_iter_calls, seq_view
    if not isinstance(h, tuple) or not h or depth > 6:
        return None
    if h[0] == "mut":
        base = hasher_nf(P, h[1], depth + 1)
        if base is None:
            return None
        parts = list(base["parts"])
        for op in h[2]:
            if op[1] in ABSORB and op[2]:
                p = _absorbed(P, op)
                if p is None:
                    return None
                parts += p
            elif op[1] in ("finalize_xof_into", "finalize_into", "read", "finalize_into_reset", "finalize_xof", "finalize_reset"):
                continue
            else:
                return None
        return {"algo": base["algo"], "parts": parts}
    if is_call(h):
        nm = h[1].rsplit("::", 1)[-1]
        if nm in ("new", "default") and not h[2]:
            return {"algo": algo_of(h), "parts": []}
        if nm == "new_with_prefix" and len(h[2]) == 1:
            return {"algo": algo_of(h), "parts": flatten(h[2][0])}
        if nm in ("chain", "chain_update") and len(h[2]) == 2:
            base = hasher_nf(P, h[2][0], depth + 1)
            return None if base is None else {"algo": base["algo"], "parts": base["parts"] + flatten(h[2][1])}
        if nm == "fold" and len(h[2]) == 3:
            base = hasher_nf(P, h[2][1], depth + 1)
            body = closure_body(P, h[2][2], {2: ACC, 3: ITEM})
            sv = seq_view(h[2][0])
            if base is None or body is None or sv is None or sv["adaptors"] or sv["drop_front"] or sv["drop_back"]:
                return None
            step = hasher_nf(P, _subst_acc(body), depth + 1)
            if step is None or step["parts"] != [ITEM]:
                return None
            return {"algo": base["algo"], "parts": base["parts"] + [("each", sv["base"])]}
        if nm in PLUMB and len(h[2]) == 1:
            return hasher_nf(P, h[2][0], depth + 1)
        H = P.fns.get(h[1])
        if H is not None and H.has_body and H.crate.startswith("frost"):
            # a workspace helper that returns a (pre-fed) hasher, instantiated with the call's arguments
            sub = {i + 1: a for i, a in enumerate(h[2])}
            return hasher_nf(P, TermCx(P, H, sub, 1).local(0), depth + 1)
    if h == ("acc",):
        return {"algo": "ACC", "parts": []}
    return None


def _subst_acc(body):
    return body


def digest_nf(P, t, depth=0):
    """term whose value is (the bytes of) a digest -> {"algo", "parts"} or None"""
    if not isinstance(t, tuple) or not t or depth > 8:
        return None
    if t[0] in ("ok", "some"):
        return digest_nf(P, t[1], depth + 1)
    if t[0] == "mut" and is_call(t[1]) and t[1][1].rsplit("::", 1)[-1] in FINAL and all(o[1] == "read" for o in t[2]):
        return digest_nf(P, t[1], depth + 1)       # an XOF reader that has been read from
    if t[0] == "mut":
        # a buffer filled from a digest: buf.copy_from_slice(d) / reader.read(&mut buf) / h.finalize_xof_into(&mut buf)
        fills = [o for o in t[2] if o[1] in ("copy_from_slice", "read", "finalize_xof_into", "finalize_into", "clone_from_slice")]
        rest = [o for o in t[2] if o not in fills and o[1] not in ("index_mut", "as_mut", "as_mut_slice", "deref_mut")]
        if len(fills) == 1 and not rest and fills[0][2] and t[1][0] in ("repeat", "agg", "const", "call"):
            src = fills[0][2][0]
            if fills[0][1] in ("finalize_xof_into", "finalize_into"):
                return hasher_nf(P, src, depth + 1)
            return digest_nf(P, src, depth + 1)
        return None
    if not is_call(t):
        return None
    nm = t[1].rsplit("::", 1)[-1]
    if nm in FINAL and len(t[2]) == 1:
        return hasher_nf(P, t[2][0], depth + 1)
    if nm == "digest" and len(t[2]) == 1 and "igest" in t[1]:
        return {"algo": algo_of(t), "parts": flatten(t[2][0])}
    if nm in PLUMB and len(t[2]) == 1:
        return digest_nf(P, t[2][0], depth + 1)
    H = P.fns.get(t[1])
    if H is not None and H.has_body and H.crate.startswith("frost"):
        sub = {i + 1: a for i, a in enumerate(t[2])}
        inner = digest_nf(P, TermCx(P, H, sub, 1).local(0), depth + 1)
        if inner is None:
            return None
        parts = []
        for p in inner["parts"]:
            if isinstance(p, tuple) and p and p[0] == "each" and p[1][0] == "agg" and p[1][1] == "array":
                for _, x in p[1][4]:
                    parts += flatten(x)
            else:
                parts.append(p)
        return {"algo": inner["algo"], "parts": parts}
    return None


def find_digest(P, t):
    """the outermost subterm of t that has a digest normal form: (wrapper chain of call names around it, nf) or (None, None)"""
    chain = []
    cur = t
    for _ in range(8):
        nf = digest_nf(P, cur)
        if nf is not None:
            return chain, nf
        if is_call(cur) and len(cur[2]) >= 1:
            chain.append(cur[1].rsplit("::", 1)[-1])
            cur = cur[2][0]
            continue
        if isinstance(cur, tuple) and cur and cur[0] in ("ok", "some"):
            cur = cur[1]
            continue
        break
    return None, None
