"""Thorough tier, checker validation (not a verdict on /repo): every seeded mutant of the property, applied to a scratch
copy of /repo's *current* tree (outside /repo and /verif, removed immediately), must still be reported by the property's
rules.  A patch that no longer applies is skipped; an undetected mutant is recorded in the evidence as a dead rule
warning — it never turns into a VIOLATION of the property, because it says nothing about /repo."""
import json, os, shutil, subprocess, tempfile
from . import facts, mir, report, lib


def run(ctx, mod):
    S = os.path.join(facts.VERIF, "seeded")
    out = []
    if not os.path.isdir(S):
        return
    ids = sorted(d for d in os.listdir(S) if os.path.isfile(os.path.join(S, d, "meta.json")))
    for i in ids:
        meta = json.load(open(os.path.join(S, i, "meta.json")))
        if meta.get("property") != ctx.prop:
            continue
        scratch = tempfile.mkdtemp(prefix="frost-selftest-")
        try:
            for rel in facts.list_files(facts.REPO):
                if not rel or rel.startswith("target/"):
                    continue
                src = os.path.join(facts.REPO, rel)
                if os.path.isfile(src):
                    dst = os.path.join(scratch, rel)
                    os.makedirs(os.path.dirname(dst), exist_ok=True)
                    shutil.copy(src, dst)
            r = subprocess.run(["patch", "-p1", "-s", "-f", "-i", os.path.join(S, i, "patch.diff")], cwd=scratch,
                               capture_output=True, text=True)
            if r.returncode != 0:
                out.append({"id": i, "applied": False, "detected": None})
                continue
            try:
                crates, tree, _ = facts.load("default", repo=scratch)
            except facts.FactError as e:
                out.append({"id": i, "applied": True, "detected": None, "note": "does not build on the current tree"})
                continue
            lib.FnView._cache.clear()
            sub = report.Ctx(ctx.prop, "thorough", mir.Program(crates), tree, ctx.seed)
            try:
                mod.run(sub)
                det = bool(sub.violations)
            except Exception as e:
                det = True   # the rules fail closed on a tree they cannot analyse
            out.append({"id": i, "applied": True, "detected": det, "keys": [v["key"] for v in sub.violations][:3]})
        finally:
            shutil.rmtree(scratch, ignore_errors=True)
            lib.FnView._cache.clear()
    ctx.extra["selftest_seeded_mutants"] = out
    dead = [o["id"] for o in out if o["applied"] and o["detected"] is False]
    if dead:
        print("WARNING: seeded mutants %s are not reported on a scratch copy of the current tree (checker validation only)" % dead)
    else:
        print("selftest: %d seeded mutants of %s re-applied to a scratch copy, %d detected, %d not applicable"
              % (len(out), ctx.prop, sum(1 for o in out if o["detected"]), sum(1 for o in out if not o["applied"])))
