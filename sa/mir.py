"""Program model over the driver's facts: functions, CFG utilities (reachability with
removed edges, dominators, natural loops), call resolution through the workspace's trait impls."""
import re
from collections import defaultdict


BORROW_PROJ = {"index_mut", "index", "as_mut", "as_ref", "deref", "deref_mut", "as_mut_slice", "as_slice",
               "borrow_mut", "borrow", "as_mut_ptr", "as_bytes_mut"}


def type_head(ty):
    """`&'a frost_core::keys::SigningShare<C>` -> ('&', 'frost_core::keys::SigningShare')"""
    ty = ty.strip()
    refs = ""
    while ty.startswith("&"):
        refs += "&"
        ty = ty[1:].strip()
        if ty.startswith("'"):
            ty = ty.split(" ", 1)[1] if " " in ty else ty
        if ty.startswith("mut "):
            ty = ty[4:]
    i = ty.find("<")
    head = ty if i < 0 or ty.startswith("<") else ty[:i]
    return (refs, head)


class Block:
    __slots__ = ("i", "stmts", "term", "cleanup")

    def __init__(self, j):
        self.i = j["i"]
        self.stmts = j["stmts"]
        self.term = j["term"]
        self.cleanup = j["cleanup"]


def place_local(p):
    return p["l"]


def is_bare(p):
    return not p["p"]


def callee_of(term):
    """fn-info dict of a call terminator (None for indirect calls)."""
    if term["k"] != "call":
        return None
    f = term["func"]
    if "const" in f and "fn" in f["const"]:
        return f["const"]["fn"]
    return None


class Fn:
    def __init__(self, j, crate):
        self.j = j
        self.crate = crate
        self.key = j["key"]
        self.name = j.get("name", "")
        self.kind = j["kind"]
        self.span = j["span"]
        self.blocks = [Block(b) for b in (j.get("blocks") or [])]
        self.has_body = bool(j.get("blocks"))
        self.locals = j.get("locals") or []
        self.arg_count = j.get("arg_count", 0)
        self.derive = self.span.get("oexp") if self.span.get("oexp", "").startswith("#[derive") else None
        self._succ = None
        self._pred = None
        self._defs = None
        self._mutrefs = None

    def __repr__(self):
        return "Fn(%s)" % self.key

    @property
    def loc(self):
        return "%s:%d" % (self.span["file"], self.span["line"])

    def local_ty(self, l):
        return self.locals[l]["ty"]

    # ---- CFG ----
    def term_succs(self, b):
        """[(target, label)] normal-flow successors (unwind edges are not followed)."""
        t = self.blocks[b].term
        k = t["k"]
        if k == "goto":
            return [(t["target"], "goto")]
        if k == "switch":
            r = [(bb, v) for v, bb in t["targets"]]
            r.append((t["otherwise"], "otherwise"))
            return r
        if k in ("call", "drop", "assert"):
            return [(t["target"], k)] if t.get("target") is not None else []
        if k == "other":
            m = re.findall(r"bb(\d+)", t.get("dbg", ""))
            return [(int(x), "other") for x in m]
        return []

    def succs(self):
        if self._succ is None:
            self._succ = {b.i: self.term_succs(b.i) for b in self.blocks}
        return self._succ

    def preds(self):
        if self._pred is None:
            p = defaultdict(list)
            for b, ss in self.succs().items():
                for (t, lab) in ss:
                    p[t].append((b, lab))
            self._pred = p
        return self._pred

    def reach(self, start=0, removed=frozenset(), stop=frozenset()):
        """blocks reachable from start; removed = set of (src, dst, label) or (src, dst) edges;
        stop = blocks that are entered but not expanded."""
        seen = set()
        if not self.blocks:
            return seen
        todo = [start]
        sc = self.succs()
        while todo:
            b = todo.pop()
            if b in seen:
                continue
            seen.add(b)
            if b in stop:
                continue
            for (t, lab) in sc[b]:
                if (b, t, lab) in removed or (b, t) in removed:
                    continue
                if t not in seen:
                    todo.append(t)
        return seen

    def normal_blocks(self):
        return self.reach(0)

    def dominators(self):
        """immediate-dominator-free simple iterative dominator sets over normal-flow blocks."""
        nodes = sorted(self.normal_blocks())
        pred = self.preds()
        dom = {n: set(nodes) for n in nodes}
        dom[0] = {0}
        changed = True
        while changed:
            changed = False
            for n in nodes:
                if n == 0:
                    continue
                ps = [p for (p, _) in pred[n] if p in dom]
                if not ps:
                    continue
                new = set.intersection(*[dom[p] for p in ps]) | {n}
                if new != dom[n]:
                    dom[n] = new
                    changed = True
        return dom

    def loops(self):
        """natural loops: list of dict(header, body(set), backedges[(src)])"""
        dom = self.dominators()
        sc = self.succs()
        res = {}
        for b in dom:
            for (t, lab) in sc[b]:
                if t in dom[b]:  # back edge b -> t
                    body = res.setdefault(t, {"header": t, "body": {t}, "back": []})
                    body["back"].append(b)
                    # collect nodes that reach b without passing t
                    todo = [b]
                    while todo:
                        n = todo.pop()
                        if n in body["body"]:
                            continue
                        body["body"].add(n)
                        for (p, _) in self.preds()[n]:
                            if p in dom:
                                todo.append(p)
        return list(res.values())

    # ---- definitions ----
    def defs(self):
        """local -> list of ('assign', bb, idx, rvalue) | ('call', bb, term) | ('partial', bb, idx, stmt)"""
        if self._defs is None:
            d = defaultdict(list)
            nb = self.normal_blocks()
            for b in self.blocks:
                if b.i not in nb:
                    continue
                for i, s in enumerate(b.stmts):
                    if s["k"] == "assign":
                        p = s["place"]
                        if is_bare(p):
                            d[p["l"]].append(("assign", b.i, i, s["rv"]))
                        else:
                            d[p["l"]].append(("partial", b.i, i, s))
                t = b.term
                if t["k"] == "call":
                    p = t["dest"]
                    if is_bare(p):
                        d[p["l"]].append(("call", b.i, t))
                    else:
                        d[p["l"]].append(("partialcall", b.i, t))
            self._defs = d
        return self._defs

    def rpo(self):
        """reverse post-order numbering of normal-flow blocks (program order for straight-line code)"""
        if getattr(self, "_rpo", None) is None:
            seen = set()
            order = []
            sc = self.succs()
            stack = [(0, iter(sorted(t for t, _ in sc.get(0, []))))] if self.blocks else []
            seen.add(0)
            while stack:
                n, it = stack[-1]
                adv = False
                for t in it:
                    if t not in seen:
                        seen.add(t)
                        stack.append((t, iter(sorted(x for x, _ in sc[t]))))
                        adv = True
                        break
                if not adv:
                    order.append(n)
                    stack.pop()
            order.reverse()
            self._rpo = {b: i for i, b in enumerate(order)}
        return self._rpo

    def ref_roots(self):
        """local -> set of locals it may point to / be a copy of a pointer to (through &, &mut, reborrow, moves of
        references, pointer casts)"""
        if getattr(self, "_roots", None) is None:
            roots = {}
            for l, ds in self.defs().items():
                for d in ds:
                    if d[0] != "assign":
                        continue
                    rv = d[3]
                    if rv["k"] in ("ref", "rawptr"):
                        roots.setdefault(l, set()).add(rv["place"]["l"])
                    elif rv["k"] in ("use", "cast"):
                        op = rv["op"]
                        src = op.get("copy") or op.get("move")
                        ty = self.local_ty(l)
                        if src is not None and (ty.startswith("&") or ty.startswith("*")):
                            roots.setdefault(l, set()).add(src["l"])
                    # borrow projections through calls: `&mut buf[..]`, as_mut(), deref_mut() ...
                for d in ds:
                    if d[0] != "call":
                        continue
                    ci = callee_of(d[2])
                    ty = self.local_ty(l)
                    if ci and ci.get("name") in BORROW_PROJ and (ty.startswith("&") or ty.startswith("*")) and d[2]["args"]:
                        a = d[2]["args"][0]
                        src = a.get("copy") or a.get("move")
                        if src is not None:
                            roots.setdefault(l, set()).add(src["l"])
            changed = True
            while changed:
                changed = False
                for l, rs in list(roots.items()):
                    for r in list(rs):
                        for rr in roots.get(r, ()):
                            if rr not in rs:
                                rs.add(rr)
                                changed = True
            self._roots = roots
        return self._roots

    def ref_path(self, l, depth=0):
        """field path (names) from the root local to what reference-local l points at, when l has a single definition
        that is a borrow / move of a borrow: `&mut (*_1).commitment.0` -> ('commitment', '0')"""
        ds = self.defs().get(l, [])
        if len(ds) != 1 or depth > 6:
            return ()
        d = ds[0]
        if d[0] == "assign":
            rv = d[3]
            if rv["k"] in ("ref", "rawptr"):
                p = rv["place"]
                path = tuple(e.get("n", str(e.get("f"))) for e in p["p"] if e != "*" and isinstance(e, dict) and "f" in e)
                return self.ref_path(p["l"], depth + 1) + path if self.local_ty(p["l"]).startswith(("&", "*")) else path
            if rv["k"] in ("use", "cast"):
                src = rv["op"].get("copy") or rv["op"].get("move")
                if src is not None and not [e for e in src["p"] if e != "*"]:
                    return self.ref_path(src["l"], depth + 1)
        elif d[0] == "call":
            ci = callee_of(d[2])
            if ci and ci.get("name") in BORROW_PROJ and d[2]["args"]:
                a = d[2]["args"][0]
                src = a.get("copy") or a.get("move")
                if src is not None:
                    return self.ref_path(src["l"], depth + 1)
        return ()

    def mutations(self):
        """local -> [(bb, term, arg index, field path)] calls that receive a `&mut` reference to (a part of) it
        (in-place updates), in program order"""
        if getattr(self, "_muts", None) is None:
            roots = self.ref_roots()
            m = defaultdict(list)
            for bb, t, ci in self.calls():
                for i, (a, aty) in enumerate(zip(t["args"], t.get("arg_tys", []))):
                    if not aty.startswith("&mut"):
                        continue
                    p = a.get("move") or a.get("copy")
                    if not p:
                        continue
                    tg = set(roots.get(p["l"], set()))
                    path = self.ref_path(p["l"])
                    for r in tg:
                        ty = self.local_ty(r)
                        if not (ty.startswith("&") or ty.startswith("*")):
                            m[r].append((bb, t, i, path))
            rpo = self.rpo()
            for l in m:
                m[l].sort(key=lambda x: rpo.get(x[0], 1 << 30))
            self._muts = m
        return self._muts

    def calls(self, normal_only=True):
        nb = self.normal_blocks() if normal_only else None
        for b in self.blocks:
            if nb is not None and b.i not in nb:
                continue
            if b.term["k"] == "call":
                yield b.i, b.term, callee_of(b.term)

    def var_names(self):
        r = {}
        for v in self.j.get("vars") or []:
            if not v["place"]["p"]:
                r.setdefault(v["place"]["l"], v["name"])
        return r


class Program:
    def __init__(self, crates):
        self.crates = crates
        self.fns = {}
        self.adts = {}
        self.impls = []
        self.traits = {}
        self.statics = []
        self.consts = {}
        for cn, c in crates.items():
            for k in c.get("consts", []):
                self.consts[k["path"]] = k["val"]
            for fj in c["fns"]:
                f = Fn(fj, cn)
                n = 1
                while f.key in self.fns:
                    # distinct items with one printed def path (e.g. two serde `__DeserializeWith` helpers in one fn)
                    n += 1
                    f.key = "%s#%d" % (fj["key"], n)
                self.fns[f.key] = f
            for a in c["adts"]:
                a["crate"] = cn
                self.adts[a["path"]] = a
            for im in c["impls"]:
                im["crate"] = cn
                self.impls.append(im)
            for t in c["traits"]:
                t["crate"] = cn
                self.traits[t["path"]] = t
            for s in c["statics"]:
                s["crate"] = cn
                self.statics.append(s)
        # trait method -> impl method keys
        self.trait_impls = defaultdict(list)  # (trait, method) -> [(impl dict, fn key)]
        for im in self.impls:
            if im.get("trait"):
                for it in im["items"]:
                    if it["kind"] == "AssocFn":
                        self.trait_impls[(im["trait"], it["name"])].append((im, it["key"]))

    def fn(self, key):
        return self.fns.get(key)

    def find_fns(self, pred):
        return [f for f in self.fns.values() if pred(f)]

    def by_name(self, crate, name, self_adt=None, trait=None):
        r = []
        for f in self.fns.values():
            if f.crate != crate or f.name != name:
                continue
            if self_adt is not None and f.j.get("self_adt") != self_adt:
                continue
            if trait is not None and f.j.get("impl_trait") != trait and f.j.get("in_trait") != trait:
                continue
            r.append(f)
        return r

    def resolve_call(self, ci, generic_join=True):
        """callee-info -> list of workspace Fn objects that may run (empty if external)."""
        if ci is None:
            return []
        if (ci.get("trait") or "").endswith("::Into") and ci.get("name") == "into" and len(ci.get("gargs", [])) == 2:
            # blanket `impl Into<U> for T where U: From<T>`: follow to the workspace From impl
            src, dst = type_head(ci["gargs"][0]), type_head(ci["gargs"][1])
            out = []
            for (im, k) in self.trait_impls.get(("core::convert::From", "from"), []):
                if type_head(im["self_ty"]) == dst and im.get("trait_args") and type_head(im["trait_args"][0]) == src:
                    f = self.fns.get(k)
                    if f is not None and f.has_body:
                        out.append(f)
            if out:
                return out
        for k in (ci.get("resolved"), ci.get("path")):
            if k and k in self.fns and self.fns[k].has_body:
                f = self.fns[k]
                if ci.get("trait") and not ci.get("resolved"):
                    # trait call on a type parameter: the default body is only one candidate
                    if generic_join:
                        break
                    return []
                return [f]
        if ci.get("trait") and generic_join:
            out = []
            dflt = self.fns.get(ci["path"])
            if dflt is not None and dflt.has_body:
                out.append(dflt)
            st = ci.get("self_ty", "")
            # unresolved trait call on a type parameter / projection: join over workspace impls
            if not ci.get("resolved"):
                for (im, k) in self.trait_impls.get((ci["trait"], ci["name"]), []):
                    f = self.fns.get(k)
                    if f is not None and f.has_body:
                        if ci.get("self_adt") and im.get("self_adt") and im["self_adt"] != ci["self_adt"]:
                            continue
                        out.append(f)
            return out
        return []
