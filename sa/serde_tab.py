"""Engine G (serde part): what the Serialize / Deserialize bodies of a workspace type write and read, from MIR."""
import re
from .lib import FnView
from .mir import callee_of


def family(prog, adt, which):
    """functions belonging to the (derived or manual) Serialize/Deserialize impl of adt, including nested helpers"""
    pats = {"ser": ["impl serde_core::ser::Serialize for %s<" % adt, "impl serde_core::ser::Serialize for %s>" % adt,
                    "<%s<C> as serde_core::ser::Serialize>" % adt, "<%s as serde_core::ser::Serialize>" % adt],
            "de": ["impl serde_core::de::Deserialize<'de> for %s<" % adt, "impl serde_core::de::Deserialize<'de> for %s>" % adt,
                   "<%s<C> as serde_core::de::Deserialize<'de>>" % adt, "<%s as serde_core::de::Deserialize<'de>>" % adt]}[which]
    return [f for k, f in prog.fns.items() if f.has_body and any(p in k for p in pats)]


def const_str(t):
    if t[0] == "const" and isinstance(t[2], str) and t[2].startswith('"'):
        return t[2].strip('"')
    return None


def describe(prog, adt):
    d = {"adt": adt, "ser": {}, "de": {}}
    for which in ("ser", "de"):
        fam = family(prog, adt, which)
        d[which]["fns"] = len(fam)
        fields, seq, names, codecs, inner, missing = [], [], [], [], [], []
        for f in sorted(fam, key=lambda f: f.key):
            v = FnView.get(prog, f)
            rpo = f.rpo()
            for (bb, t, ci) in sorted(f.calls(), key=lambda x: rpo.get(x[0], 0)):
                if not ci:
                    continue
                n = ci.get("name")
                a = v.call_args(bb)
                g = ci.get("gargs", [])
                if n == "serialize_field" and f.name == "serialize":
                    fields.append((const_str(a[1]), g[1] if len(g) > 1 else None))
                elif n in ("next_element",) and f.name == "visit_seq":
                    seq.append(g[2] if len(g) > 2 else None)
                elif n == "duplicate_field" and f.name == "visit_map":
                    names.append(const_str(a[0]))
                elif n == "missing_field" and f.name == "visit_map":
                    missing.append(const_str(a[0]))
                elif ci["path"].startswith("serdect::"):
                    codecs.append(ci["path"])
                elif n in ("serialize_newtype_struct",):
                    inner.append(g[1] if len(g) > 1 else None)
                elif n == "serialize" and (ci.get("trait") or "").endswith("ser::Serialize") and f.name == "serialize":
                    inner.append(g[0] if g else None)
                elif n == "deserialize" and (ci.get("trait") or "").endswith("de::Deserialize") and f.name in ("deserialize", "visit_newtype_struct"):
                    inner.append(g[0] if g else None)
                elif n in ("try_from", "into", "from") and f.name in ("serialize", "deserialize") and ci["crate"] == "core":
                    inner.append("conv:" + ",".join(g[:2]))
        d[which].update(fields=fields, seq=seq, names=names, codecs=codecs, inner=inner, missing=missing)
    return d
