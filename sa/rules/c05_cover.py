def run(ctx):
    pass
