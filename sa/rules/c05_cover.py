"""C05 binding coverage: the H1 / H2 operands depend on every field the statement says a share is bound to.
Decided on provenance terms (absence of a source atom in the operand's term proves independence)."""
from ..lib import *
from ..terms import TermCx, fmt, short
from .c04 import next_item, tfield

CORE = "frost_core::"


def run(ctx):
    P = ctx.prog
    f = P.fns.get(CORE + "SigningPackage::<C>::binding_factor_preimages")
    enc = P.fns.get(CORE + "round1::encode_group_commitments")
    cbl = P.fns.get(CORE + "compute_binding_factor_list")
    if f and enc and cbl:
        v = FnView.get(P, f)
        oks = ok_values(f, v)
        t = oks[0] if oks else ("unknown", "")
        # the per-identifier preimage, whatever the form of the traversal (C02's view)
        from .c02 import preimage_entries
        pe = preimage_entries(P, f, v)
        per_parts = pe[1] if pe else []
        srcs = {
            "group-key": lambda: mentions(t, lambda s: is_call(s, name="serialize") and mentions(s, arg(2))),
            "message": lambda: mentions(t, fld(arg(1), "message")),
            "commitment-list": lambda: mentions(t, lambda s: is_call(s, name="encode_group_commitments") and fld(arg(1), "signing_commitments")(s[2][0])),
            "signer-identifier": lambda: any(is_call(p_, name="serialize") and strip_newtype_fields(p_[2][0]) == ITEM for p_ in per_parts),
            "participant-set(keys)": lambda: mentions(t, lambda s: is_call(s, name="keys") and fld(arg(1), "signing_commitments")(s[2][0])),
        }
        for name, fn in srcs.items():
            ctx.check(bool(fn()), "COVER", f.key, "H1-preimage-depends-on:" + name,
                      "the binding-factor (H1) preimage no longer depends on the %s: a share would verify in a session "
                      "that differs in it" % name, f.loc)
        _, pv = commitment_entry_parts(P)
        parts = pv["parts"] if pv and pv["source"] == ("arg", 1) else []
        for name, which in (("identifier", "identifier"), ("hiding-commitment", "hiding"), ("binding-commitment", "binding")):
            ctx.check(any(entry_part(which)(p) for p in parts), "COVER", enc.key, "encoded-list-depends-on:" + name,
                      "the encoded commitment list no longer depends on every entry's %s" % name, enc.loc)
        # H1 is applied to exactly that preimage
        from .c01 import rho_is_h1_of_preimage
        ctx.check(rho_is_h1_of_preimage(P, cbl), "COVER", cbl.key,
                  "H1(whole-preimage)", "the binding factor must be H1 of the complete per-signer preimage", cbl.loc)
    ch = P.fns.get(CORE + "challenge")
    if ch:
        v = FnView.get(P, ch)
        oks = ok_values(ch, v)
        h = [s for t in oks for s in subterms(t) if is_call(s, name="H2")]
        op = h[0][2][0] if h else ("unknown", "")
        for name, pr in (("group-commitment-R", lambda s: is_call(s, name="serialize") and s[2][0] == ("arg", 1)),
                         ("group-key", lambda s: is_call(s, name="serialize") and mentions(s, arg(2))),
                         ("message", lambda s: s == ("arg", 3))):
            ctx.check(mentions(op, pr), "COVER", ch.key, "H2-operand-depends-on:" + name,
                      "the challenge (H2) input no longer depends on the %s" % name, ch.loc)
    # the six H1/H2/H4/H5 implementations depend on their argument
    n = 0
    for k, f in P.fns.items():
        for hn in ("H1", "H2", "H3", "H4", "H5"):
            if k.endswith(" as frost_core::traits::Ciphersuite>::" + hn) and f.has_body:
                n += 1
                t = FnView.get(P, f).cx.local(0)
                ctx.check(mentions(t, arg(1)), "COVER", k, "depends-on-input", "%s ignores its input" % short(k), f.loc)
    ctx.check(n == 30, "COVER", "workspace", "30-hash-impls", "expected 6x5 H1..H5 implementations, found %d" % n)
