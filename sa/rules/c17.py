"""C17 — re-randomized signing verifies only under the session-bound randomized key (structure)."""
from ..lib import *
from ..terms import TermCx, fmt, short
from ..seq import flatten
from .c04 import next_item, tfield

RR = "frost_rerandomized::"
CORE = "frost_core::"


def ret_terms(P, f):
    v = FnView.get(P, f)
    out = []
    for (b, k, rv) in ret_writes(f):
        if k == "ok":
            out.append(v.cx.operand(rv["ops"][0]))
        elif k == "call":
            t = v.cx.call(rv, (f.key, b))
            from ..guards import returns_result
            # a tail call returning Result: look through private helpers no rule names (their Ok payload re-wrapped)
            exp = ok_of(P, t) if returns_result(f) else None
            if exp and exp != [("ok", t)] and all(x[0] != "ok" for x in exp):
                out += [("agg", "adt", "core::result::Result", "Ok", (("0", x),)) for x in exp]
            else:
                out.append(t)
        elif k == "other":
            out.append(v.cx.rvalue(rv, (f.key, b, 0)))
    return out


def params_ok(t, vkp, alphap):
    """RandomizedParams{randomizer: alpha, randomizer_element: G*alpha, randomized_verifying_key: vk + G*alpha}"""
    if not (t[0] == "agg" and (t[2] or "").endswith("RandomizedParams")):
        return False
    fl = dict(t[4])
    a = fl["randomizer"]
    ge = lambda x: gen_times(x, lambda s: strip_newtype_fields(s) == strip_newtype_fields(a) or strip_newtype_fields(s) == a)
    rv = unwrap_newtypes(fl["randomized_verifying_key"])
    return (alphap(a) and ge(fl["randomizer_element"]) and is_call(rv, name="add") and
            ((vkp(strip_newtype_fields(rv[2][0])) and ge(rv[2][1])) or (vkp(strip_newtype_fields(rv[2][1])) and ge(rv[2][0]))))


def randomized_public_package(ctx):
    P = ctx.prog
    f = ctx.anchor("<frost_core::keys::PublicKeyPackage<C> as frost_rerandomized::Randomize<C>>::randomize")
    if f:
        ts = ret_terms(P, f)
        good = len(ts) == 1
        if good:
            p = ts[0]
            vs = get_field(p, "verifying_shares")
            from .c18 import map_each

            def shifted(x):
                val = unwrap_newtypes(x)
                return is_call(val, name="add") and len(val[2]) == 2 and \
                    any(strip_newtype_fields(y) == ("field", ITEM, None, "1") for y in val[2]) and \
                    any(is_field(y, "RandomizedParams", "randomizer_element") and y[1] == ("arg", 2) for y in val[2])
            good = map_each(P, f, FnView.get(P, f), vs, fld(arg(1), "verifying_shares"), shifted)
            good = good and fld(arg(2), "randomized_verifying_key")(get_field(p, "verifying_key")) and fld(arg(1), "min_signers")(get_field(p, "min_signers"))
        ctx.check(good and {k for k in adaptor_inventory(f) if k not in LOOKUPS} == set(), "AGREE", f.key,
                  "every Y_i+G*alpha, vk', threshold kept",
                  "the randomized public key package must shift every verifying share by the randomizer element, carry the "
                  "randomized group key and keep the threshold", f.loc)


def run(ctx):
    ctx.decided = ("the randomizer is H(seed || encode(commitments)) of the given seed and of every commitment entry; the "
                   "seed returned to the coordinator is the buffer that was hashed; coordinator and participants derive "
                   "the parameters through the same function; parameters are (alpha, G*alpha, vk + G*alpha); a randomized "
                   "key package is (s+alpha, Y+G*alpha, vk') and a randomized public package shifts every verifying share by "
                   "G*alpha and keeps the threshold; the wrappers call the core sign / aggregate with the randomized "
                   "package and pass the cheater-detection mode through (so the decided clauses of C03/C04 carry over).")
    ctx.undecided = "that the signature verifies under the randomized and not under the original key (algebra + hashes)."
    ctx.floor = 14
    refusal_inventory(ctx)
    P = ctx.prog
    f = ctx.anchor(RR + "Randomizer::<C>::regenerate_from_seed_and_commitments")
    if f:
        ts = ret_terms(P, f)
        good = len(ts) == 1
        if good:
            a = unwrap_newtypes(ts[0])
            good = a[0] == "some" and is_call(a[1], name="hash_randomizer")
            if good:
                parts = flatten(a[1][2][0])
                good = (len(parts) == 2 and parts[0] == ("arg", 1) and parts[1][0] == "ok" and
                        is_call(parts[1][1], name="encode_group_commitments") and parts[1][1][2][0] == ("arg", 2))
        ctx.check(good, "SEQ", f.key, "alpha==H(seed||encode(commitments))",
                  "the randomizer must be hash_randomizer(seed || encode_group_commitments(all commitments)): %s" % (fmt(ts[0])[:200] if ts else ""), f.loc)
    # the (deprecated) package-based constructor: the randomizer is hash_randomizer(drawn scalar || the whole serialized signing
    # package) — message AND every commitment — read at the public function through the private worker
    f = ctx.anchor(RR + "Randomizer::<C>::new")
    if f:
        pays = [unwrap_newtypes(x) for x in ok_of(P, [t for t in tail_results(P, f, FnView.get(P, f))][0])] if tail_results(P, f, FnView.get(P, f)) else []
        good = len(pays) == 1 and pays[0][0] == "some" and is_call(pays[0][1], name="hash_randomizer")
        if good:
            parts = flatten(pays[0][1][2][0])
            drawn = lambda x: is_call(x, name="serialize") and is_call(x[2][0], name="random") and x[2][0][2] and x[2][0][2][0] == ("arg", 1)
            whole = lambda x: x[0] == "ok" and is_call(x[1]) and x[1][1].rsplit("::", 1)[-1] in ("serialize", "to_allocvec") and \
                len(x[1][2]) == 1 and x[1][2][0] == ("arg", 2)
            good = len(parts) == 2 and drawn(parts[0]) and whole(parts[1])
        ctx.check(good, "SEQ", f.key, "alpha==H(drawn||serialize(whole signing package))",
                  "Randomizer::new must hash the drawn scalar together with the complete serialized signing package (message and every "
                  "commitment), not a part of it: %s" % ([fmt(p)[:60] for p in flatten(pays[0][1][2][0])] if pays and pays[0][0] == "some" and is_call(pays[0][1]) else pays and fmt(pays[0])[:120]), f.loc)
    f = ctx.anchor(RR + "Randomizer::<C>::new_from_commitments")
    if f:
        ts = ret_terms(P, f)
        good = len(ts) == 1 and ts[0][0] == "agg"
        if good:
            r, seed = ts[0][4][0][1], ts[0][4][1][1]
            good = (r[0] == "ok" and is_call(r[1], name="regenerate_from_seed_and_commitments") and r[1][2][0] == seed and r[1][2][1] == ("arg", 2)
                    and seed[0] == "mut" and any(o[1] == "fill_bytes" for o in seed[2]))
        ctx.check(good, "PROV", f.key, "returned-seed-is-the-hashed-seed",
                  "new_from_commitments must return exactly the seed buffer from which it derived the randomizer", f.loc)
    # both sides derive parameters identically
    f = ctx.anchor(RR + "RandomizedParams::<C>::from_randomizer")
    if f:
        ts = ret_terms(P, f)
        ctx.check(len(ts) == 1 and params_ok(ts[0], lambda x: x == ("arg", 1), lambda a: a == ("arg", 2)), "AGREE", f.key,
                  "(alpha, G*alpha, vk+G*alpha)", "from_randomizer must return (alpha, G*alpha, vk + G*alpha): %s" % (fmt(ts[0])[:300] if ts else ""), f.loc)
    f = ctx.anchor(RR + "RandomizedParams::<C>::regenerate_from_seed_and_commitments")
    if f:
        ts = ret_terms(P, f)
        al = lambda a: a[0] == "ok" and is_call(a[1], name="regenerate_from_seed_and_commitments") and a[1][2] == (("arg", 2), ("arg", 3))
        ctx.check(len(ts) == 1 and params_ok(ts[0], lambda x: x == ("arg", 1), al), "AGREE", f.key,
                  "participant-parameters==from_randomizer(vk, regenerate(seed, commitments))",
                  "participants must regenerate the parameters as from_randomizer(vk, Randomizer::regenerate(seed, commitments))", f.loc)
    f = ctx.anchor(RR + "RandomizedParams::<C>::new_from_commitments")
    if f:
        ts = ret_terms(P, f)
        good = len(ts) == 1 and ts[0][0] == "agg"
        if good:
            src = lambda x: x[0] == "ok" and is_call(x[1], name="new_from_commitments") and x[1][2] == (("arg", 3), ("arg", 2))
            p, seed = ts[0][4][0][1], ts[0][4][1][1]
            good = params_ok(p, lambda x: x == ("arg", 1), tfield(src, 0)) and tfield(src, 1)(seed)
        ctx.check(good, "AGREE", f.key, "coordinator-parameters==from_randomizer(vk, new randomizer)",
                  "the coordinator must build the parameters with from_randomizer from the randomizer whose seed it returns", f.loc)
    # randomized packages
    f = ctx.anchor("<frost_core::keys::KeyPackage<C> as frost_rerandomized::Randomize<C>>::randomize")
    if f:
        ts = ret_terms(P, f)
        if len(ts) == 1:
            kp = ts[0]
            key_package_consistent(ctx, f, kp, what="(s+alpha, Y+G*alpha)")
            S = unwrap_newtypes(get_field(kp, "signing_share"))
            ctx.check(is_call(S, name="add") and any(strip_newtype_fields(x) == ("field", ("arg", 1), "frost_core::keys::KeyPackage", "signing_share") for x in S[2])
                      and any(strip_newtype_fields(x) == ("field", ("arg", 2), "frost_rerandomized::RandomizedParams", "randomizer") for x in S[2]),
                      "AGREE", f.key, "s'==s+alpha", "randomized signing share must be s + alpha: %s" % fmt(S)[:120], f.loc)
            ctx.check(fld(arg(2), "randomized_verifying_key")(get_field(kp, "verifying_key")) and fld(arg(1), "identifier")(get_field(kp, "identifier"))
                      and fld(arg(1), "min_signers")(get_field(kp, "min_signers")), "COPY", f.key, "vk',identifier,threshold",
                      "randomized key package must carry the randomized group key and keep identifier and threshold", f.loc)
    randomized_public_package(ctx)
    # wrappers delegate to the core
    rkp = lambda params: (lambda t: t[0] == "ok" and is_call(t[1], name="randomize") and t[1][2][0] == ("arg", 3) and params(t[1][2][1]))
    f = ctx.anchor(RR + "sign_with_randomizer_seed")
    if f:
        ts = ret_terms(P, f)
        par = lambda t: t[0] == "ok" and is_call(t[1], name="regenerate_from_seed_and_commitments") and \
            fld(arg(3), "verifying_key")(t[1][2][0]) and t[1][2][1] == ("arg", 4) and fld(arg(1), "signing_commitments")(t[1][2][2])
        good = len(ts) == 1 and is_call(ts[0], name="sign") and ts[0][1] == CORE + "round2::sign" and ts[0][2][0] == ("arg", 1) and \
            ts[0][2][1] == ("arg", 2) and rkp(par)(ts[0][2][2])
        ctx.check(good, "CALL", f.key, "core-sign(package, nonces, randomize(kp, regenerate(vk, seed, package.commitments)))",
                  "sign_with_randomizer_seed must regenerate the parameters from (key package's group key, seed, the signing "
                  "package's commitments) and then call the core round2::sign with the randomized key package", f.loc)
    for key, mode in ((RR + "aggregate", lambda t: t[0] == "agg" and t[3] == "FirstCheater"), (RR + "aggregate_custom", lambda t: t == ("arg", 4))):
        f = ctx.anchor(key)
        if f:
            ts = ret_terms(P, f)
            pi = 4 if key.endswith("::aggregate") else 5
            good = len(ts) == 1 and ts[0][0] == "call" and ts[0][1] == CORE + "aggregate_custom" and ts[0][2][0] == ("arg", 1) and ts[0][2][1] == ("arg", 2) \
                and rkp(lambda p: p == ("arg", pi))(ts[0][2][2]) and mode(ts[0][2][3])
            ctx.check(good, "CALL", key, "core-aggregate(package, shares, randomize(pubkeys, params), mode)",
                      "%s must call the core aggregation with the randomized public key package and the caller's cheater-"
                      "detection mode (threshold enforcement and cheater identification unchanged)" % short(key), f.loc)
    # the six hash_randomizer implementations depend on their input (tags are decided under C02)
    n = 0
    for k, g in P.fns.items():
        if k.endswith(" as frost_rerandomized::RandomizedCiphersuite>::hash_randomizer") and g.has_body:
            n += 1
            t = ret_terms(P, g)
            ctx.check(bool(t) and mentions(t[0], arg(1)), "COVER", k, "depends-on-input", "hash_randomizer ignores its input", g.loc)
    ctx.check(n == 6, "COVER", "workspace", "six-hash_randomizer-impls", "expected 6, found %d" % n)
    # encode_group_commitments covers id, hiding, binding of every entry (same rule as C05)
    enc = ctx.anchor(CORE + "round1::encode_group_commitments")
    if enc:
        _, pv = commitment_entry_parts(P)
        parts = pv["parts"] if pv and pv["source"] == ("arg", 1) else []
        for name in ("identifier", "hiding", "binding"):
            ctx.check(any(entry_part(name)(p) for p in parts), "COVER", enc.key, "randomizer-depends-on-every-entry's:" + name,
                      "the randomizer no longer depends on every commitment entry's %s" % name, enc.loc)
