"""C19 — batch verification accepts exactly the batches whose every item verifies."""
from ..lib import *
from ..terms import TermCx, fmt
from .c04 import next_item, tfield

CORE = "frost_core::"


def run(ctx):
    ctx.decided = ("the empty batch is refused; one fresh blinder is drawn inside the per-item loop from the caller's "
                   "rng; the loop covers every queued item and pushes the item's three terms (blinder*z into the "
                   "generator coefficient with a minus sign, blinder*c with the key, blinder with R) in lock-step; "
                   "coefficient and point sequences are chained in the same order; the result is accepted iff "
                   "cofactor * sum is the identity; Item::new and single verification share the pre_verify -> "
                   "challenge -> verify_prehashed wiring.")
    ctx.undecided = "the 2^-128 soundness bound and the correctness of the NAF multiscalar routine (numeric)."
    ctx.floor = 10
    refusal_inventory(ctx)
    P = ctx.prog
    f = ctx.anchor(CORE + "batch::Verifier::<C>::verify")
    if f:
        v = FnView.get(P, f)
        sigs = fld(arg(1), "signatures")
        refusal(ctx, f, "SEP", "G41:empty-batch-refused",
                [("n==0", cmp_fact("eq", length(sigs), const(0), True)),
                 ("is_empty", cmp_fact("empty", sigs, None, True))], ok_sinks(f))
        lr = reductions(ctx, f.key, adaptors={}, min_loops=1)
        item = next_item(lambda t: t == ("call", t[1], t[2], t[3], t[4]) and is_call(t, name="iter") and sigs(t[2][0])
                         if isinstance(t, tuple) and len(t) == 5 else False)
        if lr:
            lp = lr[0]
            ctx.check(lp["iter_term"] is not None and mentions(lp["iter_term"], sigs) and
                      not mentions(lp["iter_term"], lambda s: is_call(s) and s[1].rsplit("::", 1)[-1] in TRUNCATING),
                      "RED", f.key, "loop-over-every-item", "the batch loop does not run over all queued items", f.loc)
            # blinder: drawn inside the loop body, from the rng parameter
            draws = [(bb, t) for (bb, t, ci) in f.calls() if ci and ci.get("name") == "random"
                     and (ci.get("trait") or "").endswith("Field")]
            good = len(draws) == 1 and draws[0][0] in lp["body"] and mentions(v.call_args(draws[0][0])[0], arg(2))
            ctx.check(good, "DRAW", f.key, "blinder-per-item",
                      "the blinding factor must be drawn from the caller's rng once per item, inside the loop (a "
                      "hoisted or shared blinder lets crafted invalid items cancel)", f.loc)
            if good:
                blind = lambda t: is_call(t, name="random") and t[3] == (f.key, draws[0][0])
                names = f.var_names()
                # pushes in the loop
                pushes = {}
                for (bb, t, ci) in f.calls():
                    if ci and ci.get("name") == "push" and bb in lp["body"]:
                        a = v.call_args(bb)
                        p = t["args"][0].get("move") or t["args"][0].get("copy")
                        root = [r for r in f.ref_roots().get(p["l"], ()) if not f.local_ty(r).startswith("&")]
                        pushes[names.get(root[0], root[0]) if root else bb] = a[1]
                it = lambda fieldpath: (lambda t: True)
                have = sorted(str(k) for k in pushes)
                def is_item_field(t, *path):
                    for nm in reversed(path):
                        if not (t[0] == "field" and t[3] == nm):
                            return False
                        t = t[1]
                    return t[0] == "some" and is_call(t[1], name="next")
                rc = [k for k, val in pushes.items() if blind(val)]
                rs = [k for k, val in pushes.items() if is_item_field(val, "sig", "R")]
                vkc = [k for k, val in pushes.items() if mentions(val, lambda s: is_call(s, name="mul") and blind(s[2][0]) and is_item_field(strip_newtype_fields(s[2][1]), "c"))
                       or mentions(val, lambda s: is_call(s, name="mul") and blind(s[2][0]) and is_item_field(s[2][1], "c", "0"))]
                vks = [k for k, val in pushes.items() if is_item_field(strip_newtype_fields(val), "vk") or
                       (is_call(val, name="to_element") and is_item_field(val[2][0], "vk"))]
                good = len(pushes) == 4 and len(rc) == 1 and len(rs) == 1 and len(vkc) == 1 and len(vks) == 1
                ctx.check(good, "AGREE", f.key, "per-item-terms",
                          "each item must contribute (blinder -> R coefficient, R), (blinder*c -> key coefficient, key): "
                          "found pushes %s" % {str(k): fmt(x)[:80] for k, x in pushes.items()}, f.loc)
                # generator coefficient: acc = acc - blinder*z
                acc_ok = False
                for (bb, t, ci) in f.calls():
                    if ci and ci.get("name") == "sub" and bb in lp["body"]:
                        a = v.call_args(bb)
                        if is_call(a[1], name="mul") and blind(a[1][2][0]) and is_item_field(a[1][2][1], "sig", "z"):
                            acc_ok = a[0][0] in ("phi", "loopvar")
                ctx.check(acc_ok, "AGREE", f.key, "generator-coefficient==-(sum blinder*z)",
                          "the generator's coefficient must accumulate minus blinder*z for every item", f.loc)
                # chained in the same order
                if good:
                    msm = [(bb, v.call_args(bb)) for (bb, t, ci) in f.calls() if ci and ci.get("name") == "vartime_multiscalar_mul"]
                    okc = len(msm) == 1
                    if okc:
                        sc, pt = msm[0][1]
                        def chain_order(t):
                            out = []
                            def walk(x):
                                if is_call(x, name="chain"):
                                    walk(x[2][0]); walk(x[2][1])
                                else:
                                    out.append(x)
                            walk(t)
                            return out
                        so, po = chain_order(sc), chain_order(pt)
                        def which(x):
                            for nm in (rc[0], rs[0], vkc[0], vks[0]):
                                pass
                            return None
                        def root_name(x):
                            # slice::iter(Vec{push(..)}) -> identify by the pushed value
                            for s in subterms(x):
                                if s[0] == "mut":
                                    for o in s[2]:
                                        if o[1] == "push":
                                            for k, val in pushes.items():
                                                if val == o[2][0]:
                                                    return k
                            return None
                        sn, pn = [root_name(x) for x in so], [root_name(x) for x in po]
                        okc = (len(so) == 3 and len(po) == 3 and sn[1:] == [vkc[0], rc[0]] and pn[1:] == [vks[0], rs[0]]
                               or len(so) == 3 and len(po) == 3 and sn[1:] == [rc[0], vkc[0]] and pn[1:] == [rs[0], vks[0]])
                        okc = okc and mentions(so[0], lambda s: s[0] == "phi") and mentions(po[0], lambda s: is_call(s, name="generator"))
                    ctx.check(okc, "AGREE", f.key, "coefficients-and-points-chained-in-the-same-order",
                              "scalars and points handed to the multiscalar multiplication are not chained as "
                              "(generator coeff, key coeffs, R coeffs) / (generator, keys, Rs) in matching order",
                              f.loc)
        batch_item_kernel(ctx, f, v)
        # acceptance test
        acc = cmp_fact("eq", lambda t: is_call(t, name="mul") and mentions(t[2][0], call("vartime_multiscalar_mul"))
                       and is_call(t[2][1], name="cofactor"), lambda t: is_call(t, name="identity"), False)
        refusal(ctx, f, "SEP", "accept-iff-cofactor*sum==identity", [("eq", acc)], ok_sinks(f))
    # Item::new and verify_signature share the wiring
    for key in (CORE + "batch::Item::<C>::new", CORE + "traits::Ciphersuite::verify_signature"):
        g = ctx.anchor(key)
        if not g:
            continue
        v = FnView.get(P, g)
        ch = v.calls_named("challenge")
        pv = v.calls_named("pre_verify")
        good = len(ch) == 1 and len(pv) == 1
        if good:
            a = v.call_args(ch[0][0])
            pre = lambda k: (lambda t: t[0] == "field" and t[3] == str(k) and t[1][0] == "ok" and is_call(t[1][1], name="pre_verify"))
            good = (fld(pre(1), "R")(a[0]) and pre(2)(a[1]) and pre(0)(a[2]))
        ctx.check(good, "AGREE", g.key, "pre_verify->challenge(R,vk,msg)",
                  "the challenge must be computed from the pre_verify-normalised (signature.R, key, message)", g.loc)
        if key.endswith("Item::<C>::new") and len(pv) == 1:
            # the queued item holds the same normalised key and signature the challenge was computed for
            oks = ok_values(g, v)
            pre = lambda k: (lambda t: t[0] == "field" and t[3] == str(k) and t[1][0] == "ok" and is_call(t[1][1], name="pre_verify"))
            good = len(oks) == 1 and pre(2)(get_field(oks[0], "vk")) and pre(1)(get_field(oks[0], "sig")) and \
                get_field(oks[0], "c")[0] == "ok" and is_call(get_field(oks[0], "c")[1], name="challenge")
            ctx.check(good, "AGREE", g.key, "item==(normalised key, normalised signature, their challenge)",
                      "a batch item must store the pre_verify-normalised key and signature together with the challenge "
                      "computed for them (otherwise an item that verifies alone is rejected in a batch)", g.loc)
        if key.endswith("verify_signature") and len(pv) == 1:
            tails = [v.cx.call(t, (g.key, b)) for (b, k, t) in ret_writes(g) if k == "call"]
            pre = lambda k: (lambda t: t[0] == "field" and t[3] == str(k) and t[1][0] == "ok" and is_call(t[1][1], name="pre_verify"))
            good = len(tails) == 1 and is_call(tails[0], name="verify_prehashed") and pre(2)(tails[0][2][0]) and pre(1)(tails[0][2][2]) and \
                tails[0][2][1][0] == "ok" and is_call(tails[0][2][1][1], name="challenge")
            ctx.check(good, "AGREE", g.key, "verify_prehashed(normalised key, challenge, normalised signature)",
                      "ordinary verification must check the normalised key and signature against their challenge", g.loc)
    vs = ctx.anchor(CORE + "batch::Item::<C>::verify_single")
    if vs:
        v = FnView.get(P, vs)
        tails = [v.cx.call(t, (vs.key, b)) for (b, k, t) in ret_writes(vs) if k == "call"]
        good = len(tails) == 1 and is_call(tails[0], name="verify_prehashed") and fld(arg(1), "vk")(tails[0][2][0]) and \
            fld(arg(1), "c")(tails[0][2][1]) and fld(arg(1), "sig")(tails[0][2][2])
        ctx.check(good, "AGREE", vs.key, "verify_single==verify_prehashed(vk, c, sig)", "single-item verification must be verify_prehashed on the item's own fields", vs.loc)
    g = ctx.anchor(CORE + "verifying_key::VerifyingKey::<C>::verify_prehashed")
    if g:
        v = FnView.get(P, g)
        eqn = cmp_fact("eq", lambda t: is_call(t, name="mul") and is_call(t[2][1], name="cofactor") and
                       mentions(t[2][0], fld(arg(3), "z")) and mentions(t[2][0], fld(arg(3), "R")) and
                       mentions(t[2][0], lambda s: strip_newtype_fields(s) == ("arg", 1) and s != ("arg", 1)) and mentions(t[2][0], lambda s: is_field(s, "Challenge", "0")),
                       lambda t: is_call(t, name="identity"), False)
        refusal(ctx, g, "SEP", "single-verify-equation-gates-Ok", [("(zB-cA-R)*h==0", eqn)], ok_sinks(g))


def batch_item_kernel(ctx, f, v):
    """an item's contribution (generator coeff -= b*z, key coeff b*c, R coeff b) must be -b times the single-verification
    form z*G - c*A - R (cofactor applied to the total afterwards), the code being its own oracle"""
    from .. import algebra
    from ..algebra import Alg, Unanalysable, show, eadd
    from .c01 import eq_sides, f0
    P = ctx.prog
    g = P.fns.get(CORE + "verifying_key::VerifyingKey::<C>::verify_prehashed")
    lr = loop_report(P, f)
    if not g or not lr:
        return
    lp = lr[0]
    sides = eq_sides(g, FnView.get(P, g))
    if not sides:
        return
    def itf(*path):
        def m(t):
            for nm in reversed(path):
                if not (t[0] == "field" and t[3] == nm):
                    return False
                t = t[1]
            return t[0] == "some" and is_call(t[1], name="next")
        return m
    try:
        lv = [(f0(arg(3), "z"), ("scal", "z")), (f0(arg(3), "R"), ("elem", "R")), (f0(arg(1), "element", "0"), ("elem", "A")),
              (f0(arg(2), "0"), ("scal", "c")), (lambda t: is_call(t, name="cofactor"), ("scal", "h"))]
        a, b = Alg(lv).val(sides[0]), Alg(lv).val(sides[1])
        form = algebra.esubst(eadd(a[1], b[1], -1), {"h": ("scal", algebra.P(1))})
        if form.get("G") == {("z",): -1}:
            form = eadd({}, form, -1)
        # the batch side
        bl = [(lambda t: is_call(t, name="random"), ("scal", "b")), (itf("sig", "z"), ("scal", "z")), (itf("c", "0"), ("scal", "c")),
              (lambda t: t[0] in ("phi", "loopvar"), ("scal", "acc"))]
        al = Alg(bl)
        contrib = {}
        for (bb, t, ci) in f.calls():
            if bb not in lp["body"] or not ci:
                continue
            a_ = v.call_args(bb)
            if ci.get("name") == "sub" and len(a_) == 2 and a_[0][0] in ("phi", "loopvar"):
                contrib["G"] = algebra.padd(al.val(("call", "core::ops::arith::Sub::sub", a_, None, None))[1], algebra.sym("acc"), -1)
            if ci.get("name") == "push":
                val = a_[1]
                if itf("sig", "R")(val):
                    pass
                elif is_call(val, name="random"):
                    contrib["R"] = al.val(val)[1]
                elif mentions(val, itf("c", "0")):
                    contrib["A"] = al.val(val)[1]
        want = {k: algebra.pmul(p, {("b",): -1}) for k, p in form.items()}
        ctx.check(contrib == want, "AGREE", f.key, "item==-blinder*(single-verification form)",
                  "a batch item's contribution %s is not -b times the single-verification form %s: an item that verifies "
                  "alone could fail in a batch or vice versa" % ({k: show(("scal", p)) for k, p in contrib.items()},
                                                                 {k: show(("scal", p)) for k, p in form.items()}), f.loc,
                  {"contribution": {k: show(("scal", p)) for k, p in contrib.items()}})
    except Unanalysable as e:
        ctx.violation("H", f.key, "batch-kernel:unanalysable", str(e), f.loc)
