"""C19 — batch verification accepts exactly the batches whose every item verifies."""
from ..lib import *
from ..terms import TermCx, fmt
from .c04 import next_item, tfield

CORE = "frost_core::"


def _is_path(t, base, path):
    """t == base.path[0].path[1]... (owner ADT names ignored)"""
    for nm in reversed(path):
        if not (isinstance(t, tuple) and t and t[0] == "field" and t[3] == nm):
            return False
        t = t[1]
    return t == base


def per_element_site(P, f, v, site, coll):
    """the call at `site` is executed once for every element of the collection matched by `coll`: it sits in the body of a loop
    of f over that collection (no early exit), or in the closure `.map(..)`ped over it (a value drawn before the traversal and
    pushed for every element is the same term but one draw)"""
    if not site:
        return False
    fk, bb = (site[2], site[-1]) if site[0] == "inl" else (site[0], site[-1])
    if fk == f.key:
        for lp in loop_report(P, f, v):
            if bb in lp["body"] and lp["iter_term"] is not None and coll(strip_iter_calls(lp["iter_term"])) and \
                    not any(c == "break" for _, c in lp["exits"]):
                sv = seq_view(lp["iter_term"])
                return sv is not None and not sv["adaptors"] and not sv["drop_front"] and not sv["drop_back"]
        return False
    for (b2, t, ci) in f.calls():
        if ci and ci.get("name") == "map" and (ci.get("trait") or "").endswith("Iterator"):
            a = v.call_args(b2)
            if len(a) == 2 and a[1][0] == "closure" and a[1][1] == fk:
                sv = seq_view(a[0])
                cf = P.fns.get(fk)
                return sv is not None and not sv["adaptors"] and not sv["drop_front"] and not sv["drop_back"] and coll(sv["base"]) \
                    and cf is not None and not cf.loops()
    return False


def batch_blinder(P, f, v):
    """(msm call sites, scalar components, point components, the per-item draw component(s), verdict): the blinder of
    Verifier::verify is the per-item scalar component that is a `Field::random(caller's rng)` executed once per queued item"""
    sigs = fld(arg(1), "signatures")
    msm = [(bb, v.call_args(bb)) for (bb, t, ci) in f.calls() if ci and ci.get("name") == "vartime_multiscalar_mul"]
    sc, pt = ((seq_components(P, f, v, a) for a in msm[0][1]) if len(msm) == 1 else ([], []))
    sc, pt = list(sc), list(pt)
    is_draw = lambda x: is_call(x, name="random") and "Field" in x[1] and len(x[2]) == 1 and mentions(x[2][0], arg(2))
    drawn = [c for c in sc if c[0] == "each" and sigs(c[1]) and is_draw(c[2])]
    good = len(drawn) == 1 and per_element_site(P, f, v, drawn[0][2][3], sigs)
    return msm, sc, pt, drawn, good


def run(ctx):
    ctx.decided = ("the empty batch is refused; one fresh blinder is drawn inside the per-item loop from the caller's "
                   "rng; the loop covers every queued item and pushes the item's three terms (blinder*z into the "
                   "generator coefficient with a minus sign, blinder*c with the key, blinder with R) in lock-step; "
                   "coefficient and point sequences are chained in the same order; the result is accepted iff "
                   "cofactor * sum is the identity; Item::new and single verification share the pre_verify -> "
                   "challenge -> verify_prehashed wiring.")
    ctx.undecided = "the 2^-128 soundness bound and the correctness of the NAF multiscalar routine (numeric)."
    ctx.floor = 10
    refusal_inventory(ctx)
    P = ctx.prog
    f = ctx.anchor(CORE + "batch::Verifier::<C>::verify")
    if f:
        v = FnView.get(P, f)
        sigs = fld(arg(1), "signatures")
        refusal(ctx, f, "SEP", "G41:empty-batch-refused",
                [("n==0", cmp_fact("eq", length(sigs), const(0), True)),
                 ("is_empty", cmp_fact("empty", sigs, None, True))], ok_sinks(f))
        reductions(ctx, f.key, adaptors={"zip": 2}, min_loops=1, may_be_absent=("zip",))
        # the multiscalar multiplication's two inputs as ordered components (engine D views): one-element and per-item parts.
        # The blinder is found from them: the per-item component that *is* a draw `Field::random(rng)` made with the caller's rng —
        # in a loop body or in the closure of a `.map(..)` over the queue, stored and reused element-wise afterwards.
        msm, sc, pt, drawn, good = batch_blinder(P, f, v)
        ctx.check(good, "DRAW", f.key, "blinder-per-item",
                  "the blinding factor must be drawn from the caller's rng once per item, inside a loop over every queued item (a "
                  "hoisted or shared blinder lets crafted invalid items cancel)", f.loc)
        ctx.check(good and all(c[0] == "one" or (c[0] == "each" and sigs(c[1])) for c in sc + pt), "RED", f.key, "loop-over-every-item",
                  "the batch loop does not run over all queued items", f.loc)
        if good and len(msm) == 1:
            the_draw = drawn[0][2]
            blind = lambda t: is_call(t, name="random") and t[3] == the_draw[3]
            each = lambda c, pred: c[0] == "each" and sigs(c[1]) and pred(c[2])
            itf = lambda *path: (lambda t: _is_path(strip_newtype_fields(t), ITEM, path) or _is_path(t, ITEM, path))
            r_coef = lambda c: each(c, blind)
            vk_coef = lambda c: each(c, lambda x: mentions(x, lambda s: is_call(s, name="mul") and len(s[2]) == 2 and (
                (blind(s[2][0]) and itf("c")(s[2][1])) or (blind(s[2][1]) and itf("c")(s[2][0])))) and
                not mentions(x, lambda s: s[0] == "field" and s[3] in ("z", "R", "vk")))
            r_pt = lambda c: each(c, itf("sig", "R"))
            vk_pt = lambda c: each(c, lambda x: itf("vk")(x) or (is_call(x, name="to_element") and itf("vk")(x[2][0])))
            shape = len(sc) == 3 and len(pt) == 3 and sc[0][0] == "one" and pt[0][0] == "one"
            good2 = shape and ((vk_coef(sc[1]) and r_coef(sc[2]) and vk_pt(pt[1]) and r_pt(pt[2])) or
                               (r_coef(sc[1]) and vk_coef(sc[2]) and r_pt(pt[1]) and vk_pt(pt[2])))
            ctx.check(good2, "AGREE", f.key, "per-item-terms",
                      "each item must contribute (blinder -> R coefficient, R), (blinder*c -> key coefficient, key), in matching "
                      "order on both sides of the multiscalar multiplication: scalars %s, points %s"
                      % ([fmt(c[-1])[:60] for c in sc], [fmt(c[-1])[:60] for c in pt]), f.loc)
            ctx.check(shape and is_call(pt[0][1], name="generator"), "AGREE", f.key, "coefficients-and-points-chained-in-the-same-order",
                      "the first point must be the generator, paired with the accumulated generator coefficient", f.loc)
            # generator coefficient: acc = acc - blinder*z over every item, from zero
            acc_ok = False
            if shape:
                r = reduction_of(P, f, v, sc[0][1])
                if r and sigs(strip_iter_calls(r["source"])) and len(r["init"]) == 1 and is_call(r["init"][0], name="zero") and \
                        len(r["steps"]) == 1 and not r["after"] and not r["skippable"] and not r["early_exit"]:
                    st = r["steps"][0]
                    acc_ok = is_call(st, name="sub") and st[2][0] == ACC and is_call(st[2][1], name="mul") and len(st[2][1][2]) == 2 and (
                        (blind(st[2][1][2][0]) and itf("sig", "z")(st[2][1][2][1])) or (blind(st[2][1][2][1]) and itf("sig", "z")(st[2][1][2][0])))
            ctx.check(acc_ok, "AGREE", f.key, "generator-coefficient==-(sum blinder*z)",
                      "the generator's coefficient must accumulate minus blinder*z for every item", f.loc)
        batch_item_kernel(ctx, f, v)
        # acceptance test
        acc = cmp_fact("eq", lambda t: is_call(t, name="mul") and mentions(t[2][0], call("vartime_multiscalar_mul"))
                       and is_call(t[2][1], name="cofactor"), lambda t: is_call(t, name="identity"), False)
        refusal(ctx, f, "SEP", "accept-iff-cofactor*sum==identity", [("eq", acc)], ok_sinks(f))
    # Item::new and verify_signature share the wiring
    for key in (CORE + "batch::Item::<C>::new", CORE + "traits::Ciphersuite::verify_signature"):
        g = ctx.anchor(key)
        if not g:
            continue
        v = FnView.get(P, g)
        ch = v.calls_named("challenge")
        pv = v.calls_named("pre_verify")
        good = len(ch) == 1 and len(pv) == 1
        if good:
            a = v.call_args(ch[0][0])
            pre = lambda k: (lambda t: t[0] == "field" and t[3] == str(k) and t[1][0] == "ok" and is_call(t[1][1], name="pre_verify"))
            good = (fld(pre(1), "R")(a[0]) and pre(2)(a[1]) and pre(0)(a[2]))
        ctx.check(good, "AGREE", g.key, "pre_verify->challenge(R,vk,msg)",
                  "the challenge must be computed from the pre_verify-normalised (signature.R, key, message)", g.loc)
        if key.endswith("Item::<C>::new") and len(pv) == 1:
            # the queued item holds the same normalised key and signature the challenge was computed for
            oks = ok_values(g, v)
            pre = lambda k: (lambda t: t[0] == "field" and t[3] == str(k) and t[1][0] == "ok" and is_call(t[1][1], name="pre_verify"))
            good = len(oks) == 1 and pre(2)(get_field(oks[0], "vk")) and pre(1)(get_field(oks[0], "sig")) and \
                get_field(oks[0], "c")[0] == "ok" and is_call(get_field(oks[0], "c")[1], name="challenge")
            ctx.check(good, "AGREE", g.key, "item==(normalised key, normalised signature, their challenge)",
                      "a batch item must store the pre_verify-normalised key and signature together with the challenge "
                      "computed for them (otherwise an item that verifies alone is rejected in a batch)", g.loc)
        if key.endswith("verify_signature") and len(pv) == 1:
            tails = tail_results(P, g, v)
            pre = lambda k: (lambda t: t[0] == "field" and t[3] == str(k) and t[1][0] == "ok" and is_call(t[1][1], name="pre_verify"))
            good = len(tails) == 1 and is_call(tails[0], name="verify_prehashed") and pre(2)(tails[0][2][0]) and pre(1)(tails[0][2][2]) and \
                tails[0][2][1][0] == "ok" and is_call(tails[0][2][1][1], name="challenge")
            ctx.check(good, "AGREE", g.key, "verify_prehashed(normalised key, challenge, normalised signature)",
                      "ordinary verification must check the normalised key and signature against their challenge", g.loc)
    vs = ctx.anchor(CORE + "batch::Item::<C>::verify_single")
    if vs:
        v = FnView.get(P, vs)
        tails = [v.cx.call(t, (vs.key, b)) for (b, k, t) in ret_writes(vs) if k == "call"]
        good = len(tails) == 1 and is_call(tails[0], name="verify_prehashed") and fld(arg(1), "vk")(tails[0][2][0]) and \
            fld(arg(1), "c")(tails[0][2][1]) and fld(arg(1), "sig")(tails[0][2][2])
        ctx.check(good, "AGREE", vs.key, "verify_single==verify_prehashed(vk, c, sig)", "single-item verification must be verify_prehashed on the item's own fields", vs.loc)
    g = ctx.anchor(CORE + "verifying_key::VerifyingKey::<C>::verify_prehashed")
    if g:
        v = FnView.get(P, g)
        eqn = cmp_fact("eq", lambda t: is_call(t, name="mul") and is_call(t[2][1], name="cofactor") and
                       mentions(t[2][0], fld(arg(3), "z")) and mentions(t[2][0], fld(arg(3), "R")) and
                       mentions(t[2][0], lambda s: strip_newtype_fields(s) == ("arg", 1) and s != ("arg", 1)) and mentions(t[2][0], lambda s: is_field(s, "Challenge", "0")),
                       lambda t: is_call(t, name="identity"), False)
        refusal(ctx, g, "SEP", "single-verify-equation-gates-Ok", [("(zB-cA-R)*h==0", eqn)], ok_sinks(g))


def batch_item_kernel(ctx, f, v):
    """an item's contribution (generator coeff -= b*z, key coeff b*c, R coeff b) must be -b times the single-verification
    form z*G - c*A - R (cofactor applied to the total afterwards), the code being its own oracle"""
    from .. import algebra
    from ..algebra import Alg, Unanalysable, show, eadd
    from .c01 import eq_sides, f0
    P = ctx.prog
    g = P.fns.get(CORE + "verifying_key::VerifyingKey::<C>::verify_prehashed")
    lr = loop_report(P, f)
    if not g or not lr:
        return
    lp = lr[0]
    sides = eq_sides(g, FnView.get(P, g))
    if not sides:
        return
    def itf(*path):
        def m(t):
            for nm in reversed(path):
                if not (t[0] == "field" and t[3] == nm):
                    return False
                t = t[1]
            return t[0] == "some" and is_call(t[1], name="next")
        return m
    try:
        lv = [(f0(arg(3), "z"), ("scal", "z")), (f0(arg(3), "R"), ("elem", "R")), (f0(arg(1), "element", "0"), ("elem", "A")),
              (f0(arg(2), "0"), ("scal", "c")), (lambda t: is_call(t, name="cofactor"), ("scal", "h"))]
        a, b = Alg(lv).val(sides[0]), Alg(lv).val(sides[1])
        form = algebra.esubst(eadd(a[1], b[1], -1), {"h": ("scal", algebra.P(1))})
        if form.get("G") == {("z",): -1}:
            form = eadd({}, form, -1)
        # the batch side
        bl = [(lambda t: is_call(t, name="random"), ("scal", "b")), (itf("sig", "z"), ("scal", "z")), (itf("c", "0"), ("scal", "c")),
              (lambda t: t[0] in ("phi", "loopvar"), ("scal", "acc"))]
        al = Alg(bl)
        contrib = {}
        for (bb, t, ci) in f.calls():
            if bb not in lp["body"] or not ci:
                continue
            a_ = v.call_args(bb)
            if ci.get("name") == "sub" and len(a_) == 2 and a_[0][0] in ("phi", "loopvar"):
                contrib["G"] = algebra.padd(al.val(("call", "core::ops::arith::Sub::sub", a_, None, None))[1], algebra.sym("acc"), -1)
            if ci.get("name") == "push":
                val = a_[1]
                if itf("sig", "R")(val):
                    pass
                elif is_call(val, name="random"):
                    contrib["R"] = al.val(val)[1]
                elif mentions(val, itf("c", "0")):
                    contrib["A"] = al.val(val)[1]
        want = {k: algebra.pmul(p, {("b",): -1}) for k, p in form.items()}
        ctx.check(contrib == want, "AGREE", f.key, "item==-blinder*(single-verification form)",
                  "a batch item's contribution %s is not -b times the single-verification form %s: an item that verifies "
                  "alone could fail in a batch or vice versa" % ({k: show(("scal", p)) for k, p in contrib.items()},
                                                                 {k: show(("scal", p)) for k, p in form.items()}), f.loc,
                  {"contribution": {k: show(("scal", p)) for k, p in contrib.items()}})
    except Unanalysable as e:
        ctx.violation("H", f.key, "batch-kernel:unanalysable", str(e), f.loc)
