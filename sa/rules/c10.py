"""C10 — refreshing shares keeps the group key, re-links all packages, refuses bad refreshes."""
from ..lib import *
from ..terms import TermCx, fmt
from .c04 import next_item, tfield
from .c08 import count_guard, share_check

CORE = "frost_core::"
RF = CORE + "keys::refresh::"


def strip_iter(t):
    """peel iteration / copying wrappers: slice::iter(x), into_iter(x), cloned/copied, clone -> x"""
    while isinstance(t, tuple) and t:
        if t[0] == "iter":
            t = t[1]
        elif t[0] == "call" and t[1].rsplit("::", 1)[-1] in ("iter", "into_iter", "to_vec") and len(t[2]) == 1:
            t = t[2][0]
        else:
            break
    return t


def identity_prefixed(received):
    """a commitment vector that is [identity] ++ received, in whatever way it is assembled (chain + collect, insert(0, ..) on a
    copy, with_capacity + push + extend, once(..).chain(..), a helper that does one of these): its byte-sequence-style flattening
    (sa/seq.py) is exactly [one identity commitment, the received vector]"""
    from ..seq import flatten

    def m(t):
        t = unwrap_newtypes(t) if t[0] == "agg" and t[2] and t[2].endswith("VerifiableSecretSharingCommitment") else t
        if is_call(t, name="new") and t[2]:
            t = t[2][0]
        if t[0] == "mut" and t[2] and all(len(o) > 4 and o[4][:1] == ("0",) for o in t[2]):
            # updates of the newtype's inner vector
            t = ("mut", ("field", t[1], None, "0"), tuple(("op", o[1], o[2], o[3], o[4][1:]) for o in t[2]))
        comps = flatten(t)
        if len(comps) != 2:
            return False
        first, rest = comps
        one = unwrap_newtypes(first)
        if not (mentions(one, lambda s: is_call(s, name="identity")) and not mentions(one, lambda s: s[0] == "arg")):
            return False
        if isinstance(rest, tuple) and rest and rest[0] == "each":
            rest = rest[1]
        return bool(received(strip_iter(rest)))
    return m


def run(ctx):
    ctx.decided = ("every derivation function that returns a KeyPackage returns a verifying share that is the public "
                   "image of the returned signing share (co-dependence on terms); the refreshed group key, identifier "
                   "and threshold are copies of the old ones; refusals: threshold unknown, invalid (t, |ids|), unknown "
                   "participant (dealer and distributed), threshold change (both procedures); the refreshing "
                   "contribution is verified against the commitment [identity] ++ received (zero constant term) "
                   "before it is added, per sender in the distributed procedure.")
    ctx.undecided = "that mixed old/new signer sets fail and that t refreshed participants can sign (algebra)."
    ctx.floor = 16
    refusal_inventory(ctx)
    P = ctx.prog
    wrappers(ctx, ['keys::refresh::compute_refreshing_shares', 'keys::refresh::refresh_share', 'keys::refresh::refresh_dkg_part1', 'keys::refresh::refresh_dkg_part2', 'keys::refresh::refresh_dkg_shares'])
    # ---- trusted dealer: compute_refreshing_shares
    f = ctx.anchor(RF + "compute_refreshing_shares")
    if f:
        v = FnView.get(P, f)
        minp = fld(arg(1), "min_signers")
        refusal(ctx, f, "SEP", "G29:threshold-must-be-known", [("min_signers.ok_or", succ_fact(
            minp))], ok_sinks(f), require_fail_err=False)
        refusal(ctx, f, "SEP", "G29b:(t,|ids|)-validated",
                [("validate_num_of_signers", succ_fact(lambda t: is_call(t, name="validate_num_of_signers")
                                                       and some(minp)(t[2][0]) and mentions(t[2][1], length(arg(2))))),
                 ("generate_secret_shares", succ_fact(lambda t: is_call(t, name="generate_secret_shares")
                                                      and some(minp)(t[2][2]) and mentions(t[2][1], length(arg(2)))))],
                ok_sinks(f), require_fail_err=False)
        # unknown participant: pre-check or the None arm in the loop
        from ..lib import _forall
        vsh = fld(arg(1), "verifying_shares")
        r, _why = _forall(P, v, lambda s: s == ("arg", 2),
                          [("verifying_shares.contains_key(id)", lambda item: cmp_fact("contains", vsh, item, False))],
                          ok_sinks(f), True, 0)
        if r is not None:
            ctx.ok("SEP", f.key, "G30:unknown-participant-refused", {"mechanism": "pre-check over the identifier list", "form": r["kind"]})
        else:
            src = lambda s: s[0] == "ok" and is_call(s[1], name="generate_secret_shares")
            forall_loop(ctx, f, "LOOPDOM", "G30:unknown-participant-refused", src,
                        [("verifying_shares.get(id) is Some", lambda item: succ_fact(
                            lambda t: is_call(t, name="get") and fld(arg(1), "verifying_shares")(t[2][0])
                            and mentions(t[2][1], item)))])
        # outputs
        oks = ok_values(f, v)
        good = False
        det = ""
        if len(oks) == 1 and oks[0][0] == "agg" and oks[0][1] == "tuple":
            pkp = oks[0][4][1][1]
            det = fmt(pkp)[:500]
            vs = get_field(pkp, "verifying_shares")
            good = fld(arg(1), "verifying_key")(get_field(pkp, "verifying_key"))
            ctx.check(good, "COPY", f.key, "group-key-copied",
                      "the refreshed public key package's group key is not a copy of the old one: %s"
                      % fmt(get_field(pkp, "verifying_key")), f.loc)
            ms = get_field(pkp, "min_signers")
            ctx.check(ms[0] == "agg" and ms[3] == "Some" and mentions(ms, minp) and
                      not mentions(ms, lambda s: s[0] == "const" and isinstance(s[2], int)), "COPY", f.key,
                      "threshold-kept", "the refreshed public key package's threshold is not the old one: %s" % fmt(ms),
                      f.loc)
            ins = [o for o in vs[2] if o[1] == "insert"] if vs[0] == "mut" else []
            ctx.check(vs[0] == "mut" and is_call(vs[1], name="new") and not vs[1][2] and all(o[1] == "insert" for o in vs[2]), "PROV", f.key,
                      "refreshed-package-lists-only-refreshed-identifiers",
                      "the refreshed public key package's verifying shares must be built from an empty map by the "
                      "per-identifier inserts only (removed participants must not be carried over): %s" % fmt(vs[1])[:120], f.loc)
            good = len(ins) == 1
            if good:
                key, val = ins[0][2][0], unwrap_newtypes(ins[0][2][1])
                share = base_of(key[1]) if key[0] == "field" else None
                good = (key[0] == "field" and key[3] == "identifier" and share is not None and is_call(val, name="add"))
                if good:
                    a, b = val[2]
                    refresh_img = lambda t: gen_times(t, lambda s: mentions(s, lambda u: is_field(u, "SecretShare", "signing_share") and base_of(u[1]) == share))
                    old = lambda t: mentions(t, lambda u: u[0] == "some" and is_call(u[1], name="get")
                                             and fld(arg(1), "verifying_shares")(u[1][2][0])
                                             and is_field(u[1][2][1], "SecretShare", "identifier") and base_of(u[1][2][1][1]) == share)
                    good = (refresh_img(a) and old(b)) or (refresh_img(b) and old(a))
            ctx.check(good, "CODEP", f.key, "refreshed-verifying-share==old+G*refreshing-share",
                      "each refreshed verifying share must be (old verifying share of the same identifier) + G * (that "
                      "identifier's refreshing share), filed under that identifier", f.loc)
        else:
            ctx.violation("PROV", f.key, "outputs", "unexpected Ok shape", f.loc)
        # refreshing polynomial has a zero constant term
        gss = [t for (e, fa) in v.facts if fa[0] == "succ" for t in [fa[1]] if is_call(t, name="generate_secret_shares")]
        good = bool(gss) and all(get_field(t[2][0], "scalar")[0] == "call" and
                                 is_call(get_field(t[2][0], "scalar"), name="zero") for t in gss)
        ctx.check(good, "PROV", f.key, "refreshing-key-is-zero",
                  "the refreshing polynomial's constant term is not Field::zero(): the group key would change", f.loc)
        reductions(ctx, f.key, adaptors={}, min_loops=1)
    # ---- participant: refresh_share
    f = ctx.anchor(RF + "refresh_share")
    if f:
        v = FnView.get(P, f)
        def tf(t):
            if not is_call(t, name="try_from"):
                return False
            s = t[2][0]
            return base_of(s) == ("arg", 1) and identity_prefixed(fld(fld(arg(1), "commitment"), "0"))(get_field(s, "commitment"))
        refusal(ctx, f, "SEP", "G31:zero-constant-verified-before-add",
                [("KeyPackage::try_from([identity]++commitment)?", succ_fact(tf))],
                ok_sinks(f) | call_sinks(f, lambda ci, t: ci and ci.get("name") == "add"), require_fail_err=False)
        w = Width()
        refusal(ctx, f, "SEP", "G32:threshold-unchanged",
                [("min_signers==", cmp_fact("eq", fld(arg(2), "min_signers"),
                                            lambda t: is_field(t, "KeyPackage", "min_signers") and t[1][0] == "ok" and tf(t[1][1]), False))],
                ok_sinks(f))
        oks = ok_values(f, v)
        if len(oks) == 1:
            kp = oks[0]
            key_package_consistent(ctx, f, kp)
            S = unwrap_newtypes(get_field(kp, "signing_share"))
            good = is_call(S, name="add") and any(mentions(x, fld(arg(2), "signing_share")) for x in S[2]) and \
                any(mentions(x, lambda s: s[0] == "ok" and tf(s[1])) for x in S[2])
            ctx.check(good, "PROV", f.key, "new-share==old+verified-refreshing-share",
                      "the new signing share must be old share + the refreshing share that was verified", f.loc)
            for fname in ("verifying_key", "identifier", "min_signers"):
                ctx.check(fld(arg(2), fname)(get_field(kp, fname)), "COPY", f.key, fname + "-copied",
                          "refresh_share must keep the old key package's %s (found %s)" % (fname, fmt(get_field(kp, fname))),
                          f.loc)
    # ---- distributed: part2 (length with identity re-added) and shares
    f = ctx.anchor(RF + "refresh_dkg_part2")
    if f:
        count_guard(ctx, f, "package-count", arg(2), arg(1))
        w = Width()
        # the length of [identity] ++ c, as the length of that sequence or as len(c) + 1
        cof = lambda item: (lambda s: fld(fld(tfield(item, 1), "commitment"), "0")(s))
        plus1 = lambda item: (lambda t: t[0] == "bin" and t[1] == "Add" and (
            (length(cof(item))(t[2]) and const(1)(t[3])) or (length(cof(item))(t[3]) and const(1)(t[2]))))
        mk = lambda item: cmp_fact("eq", w.of(either(length(identity_prefixed(cof(item))), plus1(item))),
                                   w.of(fld(arg(1), "min_signers")), False)
        lp = forall_loop(ctx, f, "LOOPDOM", "G36:commitment-length+1==min_signers", lambda s: s == ("arg", 2),
                         [("len!=min", mk)])
        ctx.check(not w.narrow, "SEP-width", f.key, "G36:commitment-length+1==min_signers",
                  "length compared after a narrowing cast: %s" % w.narrow, f.loc)
        reductions(ctx, f.key, adaptors={}, min_loops=1)
    f = ctx.anchor(RF + "refresh_dkg_shares")
    if f:
        v = FnView.get(P, f)
        refusal(ctx, f, "SEP", "G33:threshold-unchanged",
                [("min_signers==", cmp_fact("eq", fld(arg(1), "min_signers"), fld(arg(5), "min_signers"), False))],
                ok_sinks(f))
        # per sender: share verified against [identity] ++ sender's commitment, for own identifier, before add
        def chk(item):
            def m(t):
                if not is_call(t, name="verify") or not t[2]:
                    return False
                s = t[2][0]
                if s[0] != "agg" or not s[2].endswith("SecretShare"):
                    return False
                fl = dict(s[4])
                def prefixed_map(M):
                    # the map looked up holds, for every round-one package, [identity] ++ that package's commitment under its sender
                    comps = map_components(P, f, v, M)
                    return (len(comps) == 1 and comps[0][0] == "each" and comps[0][1] == ("arg", 2) and comps[0][2] == ("field", ITEM, None, "0")
                            and mentions(comps[0][3], identity_prefixed(lambda z: mentions(z, lambda q: is_field(q, "Package", "commitment")
                                                                                            and q[1] == ("field", ITEM, None, "1")))))
                okc = mentions(fl["commitment"], lambda u: u[0] == "some" and is_call(u[1], name="get")
                               and tfield(item, 0)(u[1][2][1]) and prefixed_map(u[1][2][0]))
                return (mentions(fl["identifier"], fld(arg(1), "identifier")) and
                        fld(tfield(item, 1), "signing_share")(fl["signing_share"]) and okc)
            return succ_fact(m)
        lp = forall_loop(ctx, f, "LOOPDOM", "G34:zero-constant-share-verified-per-sender", lambda s: s == ("arg", 3),
                         [("SecretShare{[identity]++c_ell}.verify()?", chk)], require_fail_err=False)
        if lp is not None:
            # in the element context (loop body, try_fold / map closure, helper): the share is added only behind its check
            item = lp["item"]
            takes_share = lambda ci, a: bool(ci) and ci.get("name") == "add" and \
                any(mentions(x, lambda s: fld(tfield(item, 1), "signing_share")(s)) for x in a)
            ctx.check(used_after_check(lp, takes_share), "LOOPDOM", f.key, "G34:accumulate-after-verify",
                      "a refreshing share is added without (or before) its zero-constant verification", f.loc)
        # old verifying share must exist for every identifier
        src3 = lambda s: mentions(s, lambda u: is_call(u, name="from_dkg_commitments"))
        forall_loop(ctx, f, "LOOPDOM", "G35:unknown-participant-refused", src3,
                    [("old.verifying_shares.get(id).ok_or", lambda item: succ_fact(
                        lambda t: is_call(t, name="get") and fld(arg(4), "verifying_shares")(t[2][0])
                        and tfield(item, 0)(t[2][1])))], require_fail_err=False)
        oks = ok_values(f, v)
        if len(oks) == 1 and oks[0][0] == "agg" and oks[0][1] == "tuple":
            kp, pkp = oks[0][4][0][1], oks[0][4][1][1]
            key_package_consistent(ctx, f, kp)
            S = unwrap_newtypes(get_field(kp, "signing_share"))
            ctx.check(mentions(S, fld(arg(5), "signing_share")) and mentions(S, fld(arg(1), "secret_share")),
                      "PROV", f.key, "new-share==old+own+received",
                      "the refreshed signing share must include the old share and the participant's own refreshing "
                      "share", f.loc)
            ctx.check(fld(arg(4), "verifying_key")(get_field(kp, "verifying_key")) and
                      fld(arg(4), "verifying_key")(get_field(pkp, "verifying_key")), "COPY", f.key, "group-key-copied",
                      "the refreshed packages' group key is not a copy of the old public key package's", f.loc)
            ctx.check(mentions(get_field(kp, "identifier"), fld(arg(1), "identifier")) and
                      mentions(get_field(kp, "min_signers"), fld(arg(1), "min_signers")), "COPY", f.key,
                      "identifier-and-threshold-kept", "identifier / threshold of the refreshed key package changed",
                      f.loc)
            vs = get_field(pkp, "verifying_shares")
            comps = map_components(P, f, v, vs)
            zero_pkg = lambda t: mentions(t, lambda u: is_call(u, name="from_dkg_commitments"))
            only = len(comps) == 1 and comps[0][0] == "each" and zero_pkg(comps[0][1]) and comps[0][2] == ("field", ITEM, None, "0")
            ctx.check(only, "PROV", f.key, "refreshed-package-lists-only-refreshed-identifiers",
                      "the refreshed public key package's verifying shares must hold exactly one entry per identifier of the "
                      "zero-sharing's public key package, under that identifier", f.loc)
            good = only
            if good:
                key, val = comps[0][2], unwrap_newtypes(comps[0][3])
                good = is_call(val, name="add") and len(val[2]) == 2
                if good:
                    z = lambda t: mentions(t, lambda u: u == ("field", ITEM, None, "1"))
                    old = lambda t: mentions(t, lambda u: u[0] == "some" and is_call(u[1], name="get")
                                             and fld(arg(4), "verifying_shares")(u[1][2][0]) and u[1][2][1] == key) and not z(t)
                    a, b = val[2]
                    good = (z(a) and old(b)) or (z(b) and old(a))
            ctx.check(good, "CODEP", f.key, "refreshed-verifying-share==old+zero-share-image",
                      "each refreshed verifying share must be the zero-sharing's verifying share of an identifier plus "
                      "the old verifying share of the same identifier", f.loc)
        reductions(ctx, f.key, adaptors={}, min_loops=3)
    # co-dependence on the other KeyPackage-returning derivation functions
    for key, pick in [("<frost_core::keys::KeyPackage<C> as core::convert::TryFrom<frost_core::keys::SecretShare<C>>>::try_from", None),
                      (CORE + "keys::repairable::repair_share_part3", None)]:
        g = P.fns.get(key)
        if g and g.has_body:
            vv = FnView.get(P, g)
            oks = ok_values(g, vv)
            for kp in oks:
                S, Y = get_field(kp, "signing_share"), get_field(kp, "verifying_share")
                if key.endswith("try_from"):
                    # equality-guard linking: the verifying share is the value compared with G*s behind the success edge
                    ok = (Y[0] == "field" and Y[1][0] == "ok" and is_call(Y[1][1], name="verify")
                          and base_of(Y[1][1][2][0]) == ("arg", 1) and fld(arg(1), "signing_share")(S))
                    ctx.check(ok, "CODEP", g.key, "verifying_share-from-verified-equality",
                              "KeyPackage::try_from's verifying share is not the value verified equal to G*share",
                              g.loc)
                else:
                    key_package_consistent(ctx, g, kp)
