"""C02 — construction order of every hash input / encoding against RFC 9591 (and BIP-340 for the Taproot suite)."""
from ..lib import *
from ..hashes import digest_nf, find_digest
from ..terms import TermCx, fmt, short
from ..seq import flatten
from .c04 import next_item, tfield

CORE = "frost_core::"

# RFC 9591 §6.1-6.5 (contextString, hash, tags) + the repository's non-RFC extensions (dkg, id, randomizer)
SUITES = {
    "frost_ed25519": ("Ed25519Sha512", "FROST-ED25519-SHA512-v1", "list"),
    "frost_ed448": ("Ed448Shake256", "FROST-ED448-SHAKE256-v1", "list"),
    "frost_ristretto255": ("Ristretto255Sha512", "FROST-RISTRETTO255-SHA512-v1", "list"),
    "frost_p256": ("P256Sha256", "FROST-P256-SHA256-v1", "dst"),
    "frost_secp256k1": ("Secp256K1Sha256", "FROST-secp256k1-SHA256-v1", "dst"),
    "frost_secp256k1_tr": ("Secp256K1Sha256TR", "FROST-secp256k1-SHA256-TR-v1", "dst"),
}
TAGS = {"H1": "rho", "H2": "chal", "H3": "nonce", "H4": "msg", "H5": "com", "HDKG": "dkg", "HID": "id", "hash_randomizer": "randomizer"}
# RFC exceptions for H2
H2_EXC = {"frost_ed25519": [], "frost_ed448": ['b"SigEd448\\x00\\x00"'], "frost_secp256k1_tr": "BIP0340/challenge"}


# hash algorithm per suite (self type of the hasher) and what the scalar-valued hashes do with the digest
ALGO = {"frost_ed25519": "sha2::Sha512", "frost_ristretto255": "sha2::Sha512", "frost_ed448": "shake::Shake<136>",
        "frost_p256": "sha2::Sha256", "frost_secp256k1": "sha2::Sha256", "frost_secp256k1_tr": "sha2::Sha256"}
REDUCE = {"frost_ed25519": ["from_bytes_mod_order_wide"], "frost_ristretto255": ["from_bytes_mod_order_wide"],
          "frost_ed448": ["from_bytes_mod_order_wide"]}


def preimage_entries(P, f, v):
    """binding_factor_preimages returns one (identifier, preimage) per key of the package's commitment map:
    (key term over ITEM, ordered byte parts of the preimage over ITEM) — for `.keys().map(..).collect()` and for a push loop"""
    oks = ok_values(f, v)
    if len(oks) != 1:
        return None
    comps = map_components(P, f, v, oks[0])
    if len(comps) != 1 or comps[0][0] != "each":
        return None
    src, key, val = comps[0][1], comps[0][2], comps[0][3]
    if not (is_call(src, name="keys") and fld(arg(1), "signing_commitments")(src[2][0])):
        return None
    if key is None and val[0] == "agg" and val[1] == "tuple" and len(val[4]) == 2:
        key, val = val[4][0][1], val[4][1][1]
    if key is None:
        return None
    return key, flatten(val)


def bytes_const(t):
    if t[0] == "const" and isinstance(t[2], str):
        return t[2]
    return None


def int_lin(t, argty):
    """linear normal form of an integer expression: (constant, {atom term: coefficient}); casts are peeled, constant
    sub-expressions folded (`x.to_be_bytes().len()` is the byte size of x's type)"""
    from ..terms import INT_BITS
    if t is None:
        return (None, {})
    while t[0] == "cast":
        t = t[3]
    if t[0] == "const" and isinstance(t[2], int):
        return (t[2], {})
    if (t[0] == "len" or is_call(t, name="len")):
        inner = t[1] if t[0] == "len" else t[2][0]
        if is_call(inner, name="to_be_bytes") or is_call(inner, name="to_le_bytes") or is_call(inner, name="to_ne_bytes"):
            if inner[2][0][0] == "arg" and argty in INT_BITS:
                return (INT_BITS[argty] // 8, {})
    if t[0] == "bin" and t[1] in ("Add", "Sub", "AddWithOverflow", "SubWithOverflow", "AddUnchecked", "SubUnchecked"):
        (c1, a1), (c2, a2) = int_lin(t[2], argty), int_lin(t[3], argty)
        k = 1 if t[1].startswith("Add") else -1
        if c1 is None or c2 is None:
            return (None, {})
        out = dict(a1)
        for x, n in a2.items():
            out[x] = out.get(x, 0) + k * n
        return (c1 + k * c2, {x: n for x, n in out.items() if n})
    if t[0] == "bin" and t[1] in ("Mul", "MulWithOverflow", "MulUnchecked"):
        (c1, a1), (c2, a2) = int_lin(t[2], argty), int_lin(t[3], argty)
        if c1 is not None and c2 is not None and not a1 and not a2:
            return (c1 * c2, {})
    return (0, {t: 1})


def bit_test(fa, n, item):
    """fact matcher: 'pass' on edges where bit `i` (the loop item) of n is set, 'fail' where it is clear.
    Reviewed idioms: n & (1 << i) != 0,  (n >> i) & 1 == 1 / != 0."""
    if not (fa[0] == "cond" and fa[1] == "eq" and fa[3] is not None):
        return None
    peel = lambda t: peel(t[3]) if t[0] == "cast" else t
    a, b = peel(fa[2]), peel(fa[3])
    if a[0] == "const":
        a, b = b, a
    if not (b[0] == "const" and isinstance(b[2], int) and a[0] == "bin" and a[1] == "BitAnd"):
        return None
    x, y = peel(a[2]), peel(a[3])
    for (p, q) in ((x, y), (y, x)):
        # n & (1 << i)
        if p == n and q[0] == "bin" and q[1] in ("Shl", "ShlUnchecked") and peel(q[2])[0] == "const" and peel(q[2])[2] == 1 and item(peel(q[3])):
            if b[2] == 0:
                return "fail" if fa[4] else "pass"
        # (n >> i) & 1
        if q[0] == "const" and q[2] == 1 and p[0] == "bin" and p[1] in ("Shr", "ShrUnchecked") and peel(p[2]) == n and item(peel(p[3])):
            if b[2] == 0:
                return "fail" if fa[4] else "pass"
            if b[2] == 1:
                return "pass" if fa[4] else "fail"
    return None


def identifier_from_u16(ctx):
    """RFC 9591: identifiers are the integers 1..n as scalars.  Identifier::try_from(u16) is a double-and-add over the bits of
    n below its leading one: sum = 1; for i in (0 .. 16 - lz(n) - 1).rev(): sum = 2*sum; if n & (1 << i) != 0 { sum += 1 }.
    Decided: that exact structure (range over all remaining bits, most significant first, unconditional doubling,
    conditional increment on the i-th bit of n, zero refused, result through the checked constructor)."""
    P = ctx.prog
    key = "<frost_core::identifier::Identifier<C> as core::convert::TryFrom<u16>>::try_from"
    f = ctx.anchor(key)
    if not f:
        return
    v = FnView.get(P, f)
    refusal(ctx, f, "SEP", "zero-refused",
            [("n==0", cmp_fact("eq", arg(1), const(0), True)),
             ("n.checked_ilog2() is Some", succ_fact(lambda t: is_call(t, name="checked_ilog2") and t[2] == (("arg", 1),)))],
            {b for (b, k, _) in ret_writes(f) if k in ("ok", "call")}, require_fail_err=False)
    from ..paths import iteration_cases, Unbounded
    from .. import algebra
    from ..algebra import Alg, Unanalysable
    tails = [v.cx.call(t, (f.key, b)) for (b, k, t) in ret_writes(f) if k == "call"]
    good = len(tails) == 1 and is_call(tails[0], name="new") and len(tails[0][2]) == 1
    det = ""
    it = None
    if good:
        try:
            it = iteration_cases(P, f, v, tails[0][2][0])
        except Unbounded as e:
            det = str(e)
        good = it is not None
    if good:
        sv = seq_view(it["source"])
        rng = sv["base"] if sv and sv["reversed"] and not sv["drop_front"] and not sv["drop_back"] else None
        good = (rng is not None and rng[0] == "agg" and (rng[2] or "").endswith("ops::range::Range") and int_lin(dict(rng[4]).get("start"), "u16") == (0, {}))
        if good:
            end = dict(rng[4])["end"]
            c, atoms = int_lin(end, "u16")
            # 15 - leading_zeros(n)  ==  ilog2(n)  (n != 0): the index of the leading one
            at = list(atoms)[0] if len(atoms) == 1 else None
            while at is not None and at[0] in ("some", "ok"):
                at = at[1]
            good = at is not None and (
                (c == 15 and list(atoms.values()) == [-1] and is_call(at, name="leading_zeros") and at[2][0] == ("arg", 1)) or
                (c == 0 and list(atoms.values()) == [1] and is_call(at) and at[1].rsplit("::", 1)[-1] in ("ilog2", "checked_ilog2") and at[2][0] == ("arg", 1)))
            det = fmt(end)[:160]
        # every iteration doubles; the increment happens exactly when bit i of n is set; start from one
        al = Alg([(lambda t: t == ACC, ("scal", "v"))])
        sym, pa = algebra.sym, algebra.padd
        two_v = pa(sym("v"), sym("v"))
        try:
            seen = set()
            for c in it["cases"]:
                b_ = {bit_test(fa, ("arg", 1), lambda t: t == ITEM) for fa in c["facts"]} - {None}
                val = al.val(c["value"])[1]
                if b_ == {"pass"}:
                    good = good and val == pa(two_v, algebra.P(1))
                elif b_ == {"fail"}:
                    good = good and val == two_v
                else:
                    good = False
                seen |= b_
            good = good and seen == {"pass", "fail"} and len(it["init"]) == 1 and al.val(it["init"][0])[1] == algebra.P(1) \
                and not it["early_exit"]
        except Unanalysable as e:
            good = False
            det += " " + str(e)
    ctx.check(good, "AGREE", key, "double-and-add-over-all-bits-of-n",
              "Identifier::try_from(u16) is not the double-and-add over every bit of n below its leading one (most "
              "significant first): identifiers would not be the RFC's integers as scalars for some n (%s)" % det, f.loc)
    inv = {k: n for k, n in adaptor_inventory(f).items() if k not in LOOKUPS}
    ctx.check(inv == {"rev": 1}, "RED", key, "adaptors", "adaptors %s, reviewed {rev: 1}" % inv, f.loc)



def run(ctx):
    ctx.decided = ("the composition and order of every hash input and encoding against a table transcribed from RFC 9591 "
                   "§4-§6 and BIP-340: challenge = ser(R)||ser(vk)||msg; binding-factor preimage = "
                   "ser(vk)||H4(msg)||H5(encode(list))||prefix||ser(id) for every identifier; commitment list entry = "
                   "id||hiding||binding in map order; signature = ser(R)||ser(z) (Taproot: x(R)||z); H1-H5/HDKG/HID inputs "
                   "= contextString, tag, m with the RFC tags and the three RFC exceptions for H2; the commitment list is "
                   "an ordered map and identifier order compares the whole encoding from the most significant byte. Hashes are compared in a digest normal form (algorithm = the hasher type, ordered preimage parts) that is independent of the API spelling (one-shot digest, update/chain_update, loop or fold over the inputs, concatenated buffer).")
    ctx.undecided = ("equality of values with an independent implementation, the integer-to-scalar arithmetic of "
                     "identifiers, hash_to_field internals: the headline of C02 is a value comparison; only the "
                     "construction-order clause is claimed.")
    ctx.floor = 55
    P = ctx.prog
    ser = lambda inner: (lambda t: (t[0] == "ok" and is_call(t[1], name="serialize") and inner(t[1][2][0])) or
                         (is_call(t, name="serialize") and inner(t[2][0])))
    # 1. challenge
    f = ctx.anchor(CORE + "challenge")
    if f:
        v = FnView.get(P, f)
        oks = ok_values(f, v)
        h = [s for t in oks for s in subterms(t) if is_call(s, name="H2")]
        good = len(h) == 1
        if good:
            parts = flatten(h[0][2][0])
            good = (len(parts) == 3 and ser(arg(1))(parts[0]) and ser(lambda t: strip_newtype_fields(t) == ("arg", 2))(parts[1]) and parts[2] == ("arg", 3))
        ctx.check(good, "SEQ", f.key, "H2(ser(R)||ser(vk)||msg)",
                  "RFC 9591 §4.6: challenge input must be SerializeElement(R) || SerializeElement(PK) || msg; found %s"
                  % ([fmt(p)[:60] for p in flatten(h[0][2][0])] if h else "no H2 call"), f.loc)
    # 2. binding factor preimages
    f = ctx.anchor(CORE + "SigningPackage::<C>::binding_factor_preimages")
    if f:
        v = FnView.get(P, f)
        det = ""
        pv = preimage_entries(P, f, v)
        good = pv is not None
        if good:
            key, parts = pv
            vk = lambda x: x[0] == "ok" and is_call(x[1], name="serialize") and (strip_newtype_fields(x[1][2][0]) == ("arg", 2) or
                                                                                  x[1][2][0] == ("field", ("arg", 2), "frost_core::verifying_key::VerifyingKey", "element"))
            h4 = lambda x: is_call(x, name="H4") and fld(arg(1), "message")(x[2][0])
            h5 = lambda x: is_call(x, name="H5") and mentions(x[2][0], lambda s: is_call(s, name="encode_group_commitments") and fld(arg(1), "signing_commitments")(s[2][0]))
            idp = lambda x: is_call(x, name="serialize") and strip_newtype_fields(x[2][0]) == ITEM
            det = [fmt(p)[:70] for p in parts]
            good = (strip_newtype_fields(key) == ITEM and len(parts) == 5 and vk(parts[0]) and h4(parts[1]) and h5(parts[2])
                    and parts[3] == ("arg", 3) and idp(parts[4]))
        ctx.check(good, "SEQ", f.key, "ser(vk)||H4(msg)||H5(encode(list))||prefix||ser(id)",
                  "RFC 9591 §4.4: rho_input = group_public_key_enc || H4(msg) || H5(encode_group_commitment_list) [|| extra "
                  "prefix] || SerializeScalar(identifier), one per identifier of the list; found prefix %s" % (det,), f.loc)
    # 3. commitment list encoding
    f = ctx.anchor(CORE + "round1::encode_group_commitments")
    if f:
        _, pv = commitment_entry_parts(P)
        parts = pv["parts"] if pv else []
        good = bool(pv) and pv["source"] == ("arg", 1) and len(parts) == 3 and entry_part("identifier")(parts[0]) and \
            entry_part("hiding")(parts[1]) and entry_part("binding")(parts[2])
        ctx.check(good, "SEQ", f.key, "id||hiding||binding-per-entry",
                  "RFC 9591 §4.3: each entry encodes as SerializeScalar(identifier) || SerializeElement(hiding) || "
                  "SerializeElement(binding), for every entry of the map in order; found %s" % [fmt(p)[:60] for p in parts], f.loc)
    # ordered container + identifier order
    sp = P.adts.get(CORE + "SigningPackage")
    ty = [x["ty"] for x in sp["variants"][0]["fields"] if x["name"] == "signing_commitments"][0] if sp else ""
    ctx.check(ty.startswith("alloc::collections::btree::map::BTreeMap<frost_core::identifier::Identifier<"), "TAB", CORE + "SigningPackage",
              "commitments-in-an-ordered-map", "the commitment list must be kept in a map ordered by identifier (found %s)" % ty)
    f = ctx.anchor("<frost_core::identifier::Identifier<C> as core::cmp::Ord>::cmp")
    if f:
        t = FnView.get(P, f).cx.local(0)
        side = lambda x, a: is_call(x, name="rev") and is_call(x[2][0], name="iter") and is_call(x[2][0][2][0], name="little_endian_serialize") \
            and strip_newtype_fields(x[2][0][2][0][2][0]) == ("arg", a)
        good = is_call(t, name="cmp") and side(t[2][0], 1) and side(t[2][1], 2) and \
            {k: n for k, n in adaptor_inventory(f).items() if k not in LOOKUPS} == {"rev": 2}
        ctx.check(good, "RED", f.key, "full-width-big-endian-comparison",
                  "identifier order must compare the complete little-endian encodings of both operands from the most "
                  "significant byte (rev on both sides, nothing skipped): %s" % fmt(t)[:200], f.loc)
    identifier_from_u16(ctx)
    # 4. nonces derived from given randomness (first 32 bytes -> hiding, next 32 -> binding; H3(random||share)) and
    #    the commitments published for them: same rules as C15
    from .c15 import rules as nonce_rules
    nonce_rules(ctx)
    # 5. signature encodings
    f = ctx.anchor(CORE + "signature::Signature::<C>::default_serialize")
    if f:
        v = FnView.get(P, f)
        oks = ok_values(f, v)
        parts = flatten(oks[0]) if len(oks) == 1 else []
        good = len(parts) == 2 and ser(fld(arg(1), "R"))(parts[0]) and ser(fld(arg(1), "z"))(parts[1])
        ctx.check(good, "SEQ", f.key, "ser(R)||ser(z)", "RFC 9591 §5.3 / Appendix A: signature = SerializeElement(R) || SerializeScalar(z); "
                  "found %s" % [fmt(p)[:60] for p in parts], f.loc)
    f = ctx.anchor("<frost_secp256k1_tr::Secp256K1Sha256TR as frost_core::traits::Ciphersuite>::serialize_signature")
    if f:
        v = FnView.get(P, f)
        oks = ok_values(f, v)
        good = False
        if len(oks) == 1 and oks[0][0] == "mut":
            cps = []
            for (bb, t, ci) in sorted(f.calls(), key=lambda x: f.rpo().get(x[0], 0)):
                if ci and ci.get("name") == "copy_from_slice":
                    a = v.call_args(bb)
                    cps.append(a)
            def rng(x):
                return dict(x[2][1][4]) if is_call(x, name="index_mut") or is_call(x, name="index") else {}
            good = (len(cps) == 2 and rng(cps[0][0]).get("end") == ("const", "usize", 32) and
                    is_call(cps[0][1], name="index") and rng(cps[0][1]).get("start") == ("const", "usize", 1) and
                    mentions(cps[0][1], lambda s: is_call(s, name="serialize") and fld(arg(1), "R")(s[2][0])) and
                    rng(cps[1][0]).get("start") == ("const", "usize", 32) and
                    mentions(cps[1][1], lambda s: is_field(s, "Signature", "z") or fld(arg(1), "z")(s)))
        if not good and len(oks) == 1:
            # the concatenation form: a buffer filled by `extend_from_slice` / `concat` with the two parts in order, the first being
            # ser(R) without its tag byte (`[1..]`, `split_at(1).1`, `split_first().1`)
            parts = flatten(oks[0])
            serR = lambda t: mentions(t, lambda s_: is_call(s_, name="serialize") and fld(arg(1), "R")(s_[2][0]))
            def tail1(t):
                from .c01 import strip_views
                t = strip_views(t)
                if is_call(t, name="index") and len(t[2]) == 2 and t[2][1][0] == "agg" and (t[2][1][2] or "").endswith("RangeFrom"):
                    return dict(t[2][1][4]).get("start") == ("const", "usize", 1) and serR(t[2][0])
                if t[0] == "field" and t[2] is None and t[3] == "1":
                    b = t[1]
                    if is_call(b, name="split_at") and len(b[2]) == 2:
                        return b[2][1] == ("const", "usize", 1) and serR(b[2][0])
                    if b[0] == "some" and is_call(b[1], name="split_first") and len(b[1][2]) == 1:
                        return serR(b[1][2][0])
                return False
            good = len(parts) == 2 and tail1(parts[0]) and not serR(parts[1]) and \
                mentions(parts[1], lambda u: is_field(u, "Signature", "z") or fld(arg(1), "z")(u))
        ctx.check(good, "SEQ", f.key, "x(R)||ser(z)", "BIP-340: signature = bytes(R)[x-only, tag byte dropped] || bytes(z)", f.loc)
    # 6. per-ciphersuite hash functions
    for crate, (suite, cs, style) in sorted(SUITES.items()):
        ctx.check(P.consts.get(crate + "::CONTEXT_STRING") == '"%s"' % cs, "TAB", crate, "contextString",
                  "contextString of %s is %s, RFC 9591 §6 says \"%s\"" % (crate, P.consts.get(crate + "::CONTEXT_STRING"), cs))
        ctxs = lambda t: is_call(t, name="as_bytes") and t[2][0] in (("const", "&str", "uneval:%s::CONTEXT_STRING" % crate),
                                                                     ("const", "&str", '"%s"' % cs))
        for hname, tag in sorted(TAGS.items()):
            tr = "frost_rerandomized::RandomizedCiphersuite" if hname == "hash_randomizer" else "frost_core::traits::Ciphersuite"
            key = "<%s::%s as %s>::%s" % (crate, suite, tr, hname)
            f = ctx.anchor(key)
            if not f:
                continue
            t = FnView.get(P, f).cx.local(0)
            if t[0] == "agg" and t[3] == "Some":
                t = t[4][0][1]
            want_tag = 'b"%s"' % tag
            if hname == "H2" and crate in H2_EXC:
                exc = H2_EXC[crate]
                if isinstance(exc, str):
                    # BIP-340 tagged hash: SHA256(SHA256(tag)||SHA256(tag)||m)
                    from ..hashes import hasher_nf
                    chain, nf = find_digest(P, t)
                    tagd = lambda p_: (lambda d: d is not None and d["algo"] == "sha2::Sha256" and len(d["parts"]) == 1 and
                                       is_call(d["parts"][0], name="as_bytes") and d["parts"][0][2][0] == ("const", "&str", '"%s"' % exc))(digest_nf(P, p_))
                    good = nf is not None and nf["algo"] == "sha2::Sha256" and len(nf["parts"]) == 3 and tagd(nf["parts"][0]) and \
                        tagd(nf["parts"][1]) and nf["parts"][2] == ("arg", 1)
                    ctx.check(good, "SEQ", key, "BIP340-tagged-hash(challenge)",
                              "BIP-340: e = SHA256(SHA256(tag)||SHA256(tag)||m) with tag \"%s\": %s" % (exc, fmt(t)[:160]), f.loc)
                    continue
                chain, nf = find_digest(P, t)
                parts = nf["parts"] if nf else []
                good = nf is not None and nf["algo"] == ALGO[crate] and chain == REDUCE[crate] and \
                    len(parts) == len(exc) + 1 and parts[-1] == ("arg", 1) and [bytes_const(p) for p in parts[:-1]] == exc
                ctx.check(good, "SEQ", key, "H2-RFC8032-compatible",
                          "RFC 9591 §6.1/§6.3: H2 of %s hashes %s || m without contextString; found %s" % (crate, exc, [fmt(p)[:40] for p in parts]), f.loc)
                continue
            if style == "list" or hname in ("H4", "H5"):
                # digest normal form (sa/hashes.py): the algorithm, the ordered preimage parts, and what is done with the digest
                chain, nf = find_digest(P, t)
                parts = nf["parts"] if nf else []
                good = nf is not None and nf["algo"] == ALGO[crate] and len(parts) == 3 and ctxs(parts[0]) and \
                    bytes_const(parts[1]) == want_tag and parts[2] == ("arg", 1)
                # H4/H5 return the digest itself; the scalar-valued ones reduce the (wide) digest modulo the group order
                good = good and chain == ([] if hname in ("H4", "H5") else REDUCE[crate])
            else:
                good = is_call(t, name="hash_to_scalar") and t[1].startswith(crate) and t[2][1] == ("arg", 1)
                if good:
                    dst = t[2][0]
                    parts = [x for _, x in dst[4]] if dst[0] == "agg" and dst[1] == "array" else []
                    good = len(parts) == 2 and ctxs(parts[0]) and bytes_const(parts[1]) == want_tag
            ctx.check(good, "SEQ", key, "(contextString,\"%s\",m)" % tag,
                      "RFC 9591 §6: %s of %s must hash contextString || \"%s\" || m (hash_to_field DST = contextString || "
                      "tag for the NIST/secp suites); found %s" % (hname, crate, tag, fmt(t)[:200]), f.loc)
        # hash_to_array feeds every input, in order
        f = ctx.anchor(crate + "::hash_to_array")
        if f:
            reductions(ctx, f.key, adaptors={}, min_loops=0)
            v = FnView.get(P, f)
            nf = digest_nf(P, v.cx.local(0))
            good = nf is not None and nf["algo"] == ALGO[crate] and nf["parts"] == [("each", ("arg", 1))]
            ctx.check(good, "RED", f.key, "update(each input in order)", "hash_to_array must feed every input slice, in order, to one "
                      "fresh %s hasher and return its digest (found %s)" % (ALGO[crate], nf and (nf["algo"], [fmt(p)[:40] for p in nf["parts"]])), f.loc)
        if style == "dst":
            f = ctx.anchor(crate + "::hash_to_scalar")
            if f:
                v = FnView.get(P, f)
                h = [v.call_args(bb) for (bb, t, ci) in f.calls() if ci and ci.get("name") == "hash_to_field"]
                good = len(h) == 1 and h[0][0][0] == "agg" and h[0][0][1] == "array" and [x for _, x in h[0][0][4]] == [("arg", 2)] and h[0][1] == ("arg", 1)
                ctx.check(good, "SEQ", f.key, "hash_to_field([msg], DST=domain)", "hash_to_scalar must call hash_to_field(msg, DST = domain)", f.loc)
