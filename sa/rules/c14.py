"""C14 — untrusted bytes and untrusted protocol messages never cause a panic (engine F)."""
from ..lib import *
from ..terms import TermCx, fmt, short
from .. import panics
from ..mir import callee_of

CORE = "frost_core::"


def const_only(t):
    return not mentions(t, lambda s: s[0] in ("arg", "loopvar", "phi", "some", "ok", "call", "callind", "mut", "updated",
                                             "uninit", "unknown", "field", "index"))


def is_len(t):
    t = strip_casts(t)[0]
    return (t[0] == "call" and t[1].rsplit("::", 1)[-1] == "len" and len(t[2]) == 1) or t[0] == "len" or \
        (t[0] == "bin" and t[1] in ("Add",) and is_len(t[2]) and is_len(t[3]))


def sum_of_lengths(c):
    """overflow flag of len(a) + len(b): lengths of sequences that exist in memory cannot add up to usize::MAX"""
    t = c
    if t[0] == "field" and t[3] == "1":
        t = t[1]
    small = lambda x: x[0] == "const" and isinstance(x[2], int) and 0 <= x[2] < (1 << 32)
    # (a Vec / slice length is at most isize::MAX, so adding another length or a small constant cannot wrap usize)
    return t[0] == "bin" and t[1] == "AddWithOverflow" and (is_len(t[2]) or small(t[2])) and (is_len(t[3]) or small(t[3])) and \
        (is_len(t[2]) or is_len(t[3]))


_PROG = []


def range_item_bound(src, depth=0, env=None):
    """upper bound of the elements of an iterator chain over a Range (rev / iter / into_iter peeled)"""
    while isinstance(src, tuple) and src and (src[0] == "iter" or (src[0] == "call" and src[1].rsplit("::", 1)[-1] in ("rev", "into_iter", "iter") and src[2])):
        src = src[1] if src[0] == "iter" else src[2][0]
    if isinstance(src, tuple) and src and src[0] == "agg" and (src[2] or "").endswith("Range"):
        e = upper_bound(dict(src[4]).get("end"), depth + 1, env)
        return None if e is None else max(e - 1, 0)
    return None


def closure_param_bounds(P, f):
    """for a closure handed to an iterator consumer over a Range (`(0..k).rev().fold(init, |acc, i| ..)`, `.map(|i| ..)`):
    {('arg', last parameter): bound of the range's elements}, evaluated at the call site in the parent function"""
    if f.kind != "Closure":
        return {}
    parent = P.fns.get(f.j.get("parent_fn"))
    if parent is None or not parent.has_body:
        return {}
    v = FnView.get(P, parent)
    out = {}
    for (bb, t, ci) in parent.calls():
        if not ci or ci.get("name") not in ("fold", "map", "for_each", "try_fold", "try_for_each", "all", "any", "filter", "rfold"):
            continue
        a = v.call_args(bb)
        if a and any(x[0] == "closure" and x[1] == f.key for x in a[1:]):
            b = range_item_bound(a[0])
            if b is not None:
                out[("arg", f.arg_count)] = b
    return out


def upper_bound(t, depth=0, env=None):
    """a static upper bound of an unsigned integer term, or None"""
    if depth > 8 or not isinstance(t, tuple):
        return None
    if env and t in env:
        return env[t]
    if t[0] == "const" and isinstance(t[2], int):
        return t[2]
    if t[0] == "const" and isinstance(t[2], str) and t[2].endswith("::BITS"):
        return 128
    if t[0] in ("some", "ok") and not (t[0] == "some" and is_call(t[1], name="next")):
        return upper_bound(t[1], depth + 1, env)
    if t[0] == "call" and t[1].rsplit("::", 1)[-1] in ("ilog2", "checked_ilog2") and len(t[2]) == 1:
        ty = t[4] if isinstance(t[4], str) else ""
        if ty not in ("u8", "u16", "u32", "u64", "u128", "usize") and _PROG:
            ci_, term_ = call_info(_PROG[0], t)
            ty = (term_ or {}).get("arg_tys", [""])[0].lstrip("&") if term_ else ""
        bits = {"u8": 8, "u16": 16, "u32": 32, "u64": 64, "u128": 128, "usize": 64}.get(ty, 128)
        return bits - 1          # floor(log2 n) of an n-bit unsigned integer
    if t[0] == "cast":
        return upper_bound(t[3], depth + 1, env)
    if t[0] == "bin" and t[1] == "Sub" and t[3][0] == "const" and isinstance(t[3][2], int) and t[3][2] >= 0:
        a_ = upper_bound(t[2], depth + 1, env)
        return None if a_ is None else max(a_ - t[3][2], 0)          # (no wrap: the subtraction has its own overflow assert)
    if t[0] == "bin" and t[1] in ("Sub", "Div", "Rem", "Shr", "BitAnd"):
        return upper_bound(t[2], depth + 1, env)          # unsigned: subtracting / dividing / masking only decreases
    if t[0] == "bin" and t[1] in ("Mul", "Add"):
        a, b = upper_bound(t[2], depth + 1, env), upper_bound(t[3], depth + 1, env)
        return None if a is None or b is None else (a * b if t[1] == "Mul" else a + b)
    if (t[0] == "call" and t[1].rsplit("::", 1)[-1] == "len") and t[2] and is_call(t[2][0], name="to_be_bytes"):
        return 16
    if t[0] == "some" and is_call(t[1], name="next"):
        # element of a range: below its end
        return range_item_bound(t[1][2][0], depth, env)
    return None


def lower_bound(t, depth=0):
    """a static lower bound of an integer term built from constants and elements of constant ranges, or None"""
    if depth > 6 or not isinstance(t, tuple):
        return None
    if t[0] == "const" and isinstance(t[2], int):
        return t[2]
    if t[0] == "cast":
        return lower_bound(t[3], depth + 1)
    if t[0] == "some" and is_call(t[1], name="next"):
        src = t[1][2][0]
        while isinstance(src, tuple) and src and (src[0] == "iter" or (src[0] == "call" and src[1].rsplit("::", 1)[-1] in ("rev", "into_iter", "iter") and src[2])):
            src = src[1] if src[0] == "iter" else src[2][0]
        if isinstance(src, tuple) and src and src[0] == "agg" and (src[2] or "").endswith("Range"):
            return lower_bound(dict(src[4]).get("start"), depth + 1)
        return None
    if t[0] == "bin" and t[1] == "Add":
        a, b = lower_bound(t[2], depth + 1), lower_bound(t[3], depth + 1)
        return None if a is None or b is None else a + b
    return None


def within_constant_range(c, k):
    """assert conditions decided by constant bounds of the operands: `idx < LEN` with ub(idx) < LEN; `a + b` with ub(a) + ub(b)
    small; `a - b` with lb(a) >= ub(b)"""
    if k == "assert:bounds" and c[0] == "bin" and c[1] == "Lt" and c[3][0] == "const" and isinstance(c[3][2], int):
        ub = upper_bound(c[2])
        return ub is not None and lower_bound(c[2]) is not None and ub < c[3][2]
    t = c[1] if c[0] == "field" and c[3] == "1" else c
    if k == "assert:overflow:Add" and t[0] == "bin" and t[1] == "AddWithOverflow":
        a, b = upper_bound(t[2]), upper_bound(t[3])
        return a is not None and b is not None and lower_bound(t[2]) is not None and lower_bound(t[3]) is not None and a + b < 128
    if k == "assert:overflow:Sub" and t[0] == "bin" and t[1] == "SubWithOverflow":
        lo, hi = lower_bound(t[2]), upper_bound(t[3])
        return lo is not None and hi is not None and lower_bound(t[3]) is not None and lo >= hi
    return False


def shift_in_range(c, env=None):
    """MIR asserts `amount < BITS` for a shift: discharge when a static upper bound of the amount is below the width"""
    if c[0] == "bin" and c[1] == "Lt" and c[3][0] == "const" and isinstance(c[3][2], int):
        ub = upper_bound(c[2], 0, env)
        return ub is not None and ub < c[3][2]
    return False


def arg_free(t):
    return not mentions(t, lambda s: s[0] in ("arg", "loopvar", "unknown", "uninit"))


# ---- obligations: (ctx, fn, view, site blocks) -> bool ----

def ob_sep(*mechs):
    def ob(ctx, f, v, blocks):
        edges = set()
        for m in mechs:
            for (e, fa) in v.facts:
                if m(fa) == "pass" and all(fail_is_error(f, e2) or not returns_result_like(f)
                                           for (e2, f2) in v.facts if e2[0] == e[0] and m(f2) == "fail"):
                    edges.add(e)
        return not sep(f, edges, blocks)
    return ob


def returns_result_like(f):
    return "Result<" in (f.j.get("output") or "")


def ob_validated_min(arg_pred):
    """`min as usize - 1`: dominated by the Ok edge of validate_num_of_signers(min, ..) on the same value"""
    return ob_sep(succ_fact(lambda t: is_call(t, name="validate_num_of_signers") and arg_pred(t[2][0])))


def ob_exact_sum(ctx, f, v, blocks):
    enc_len = lambda of: length(lambda t: mentions(t, lambda s: is_call(s, name="serialize") and any(mentions(x, lambda u: is_call(u, name=of)) for x in s[2])))
    return exact_length(ctx.prog, f, set(blocks), arg(1), sum_of=(enc_len("generator"), enc_len("zero"))) is not None


def ob_exact(n):
    return lambda ctx, f, v, blocks: exact_length(ctx.prog, f, set(blocks), arg(1), const_n=n) is not None


def prefixed_nonempty(vec):
    """the vector removed from had an identity commitment put in front earlier in the same call (any spelling): somewhere in its
    term there is a sequence whose flattening starts with a one-element identity part"""
    from ..seq import flatten
    from .c10 import identity_prefixed
    return mentions(vec, lambda s: s[0] in ("mut", "call", "agg") and identity_prefixed(lambda r: True)(s))


def ob_commit(ctx, f, v, blocks):
    # preprocess(1, ..) and preprocess pushes one pair per iteration of 0..num_nonces
    ok = all(mentions(a, lambda s: is_call(s, name="preprocess") and const(1)(s[2][0]))
             for b in blocks for a in v.call_args(b)[:1])
    pp = ctx.prog.fns.get(CORE + "round1::preprocess")
    if not pp:
        return False
    pv = FnView.get(ctx.prog, pp)
    ps = paired_sequences(ctx.prog, pp, pv, pv.cx.local(0))     # one pair per element of 0..num_nonces (loop or map+unzip)
    src = ps["source"] if ps else None
    rng_ok = ps is not None and src[0] == "agg" and (src[2] or "").endswith("Range") and \
        dict(src[4]).get("start") == ("const", "u8", 0) and dict(src[4]).get("end") == ("arg", 1)
    return ok and rng_ok


def ob_default_identifiers(ctx, f, v, blocks):
    # Identifier::try_from(i).expect(..) for every i of 1..=max: the range starts at the literal 1, so i != 0 — whether written as
    # (1..=max).map(|i| ..).collect() or as a push loop over the range
    parent = ctx.prog.fns.get(CORE + "keys::default_identifiers")
    if not parent:
        return False
    pv = FnView.get(ctx.prog, parent)
    m = mapping_of(ctx.prog, parent, pv, pv.cx.local(0))
    if not m or m["key"] is not None:
        return False
    src, val = m["source"], m["val"]
    return is_call(src, name="new") and "RangeInclusive" in src[1] and const(1)(src[2][0]) and len(blocks) == 1 and \
        is_call(val, name="expect") and is_call(val[2][0], name="try_from") and val[2][0][2][0] == ITEM


def ob_multiscalar_callers(ctx, f, v, blocks):
    # vartime_multiscalar_mul(..).expect: elements are all Some by construction (map(|e| Some(..))) and both callers
    # hand over equally long sequences (lock-step pushes, decided by the reduction rules of C01/C19)
    a = v.call_args(list(blocks)[0])[0]
    somes = [s for s in subterms(a) if s[0] == "closure"]
    ok = False
    for c in somes:
        cf = ctx.prog.fns.get(c[1])
        if cf:
            ct = TermCx(ctx.prog, cf).local(0)
            ok = ct[0] == "agg" and ct[3] == "Some"
    callers = [g for g in ctx.prog.fns.values() if g.has_body and g.crate.startswith("frost") and
               any(ci and ci.get("name") == "vartime_multiscalar_mul" for (_, _, ci) in g.calls())]
    return ok and {g.key for g in callers} <= {CORE + "compute_group_commitment", CORE + "batch::Verifier::<C>::verify"}


def ob_first_after_empty_return(ctx, f, v, blocks):
    """`nafs[0]` is reached only when `nafs.is_empty()` is false (an empty signing package reaches this code)"""
    zero_idx = {b for b in blocks if len(v.call_args(b)) > 1 and const(0)(v.call_args(b)[1])}
    if not zero_idx:
        return True     # no `[0]` indexing at all (e.g. `first()` is used): nothing to guard
    if len(zero_idx) != 1:
        return False
    edges = {e for (e, fa) in v.facts if fa[0] == "cond" and fa[1] == "empty" and not fa[4] and mentions(fa[2], arg(1))} | \
        {e for (e, fa) in v.facts if fa[0] == "cond" and fa[1] == "eq" and not fa[4] and fa[3] is not None and
         ((const(0)(fa[2]) and length(contains_term(arg(1)))(fa[3])) or (const(0)(fa[3]) and length(contains_term(arg(1)))(fa[2])))}
    return bool(edges) and not sep(f, edges, zero_idx)


def reason(r):
    return (None, r)


# (function key suffix, kind) -> (expected count, reason, obligation or None)
REVIEWED = {
    # --- frost-core: decoding / protocol steps on untrusted input
    ("signature::Signature::<C>::default_deserialize", "assert:overflow:Add"): (2, "R_len + z_len: lengths of the ciphersuite's fixed-size encodings (type-level constants <= 114)", None),
    ("signature::Signature::<C>::default_deserialize", "call:slice::copy_from_slice"): (2, "sources are the first R_len / the following z_len bytes of an input of exactly R_len + z_len bytes, destinations the fixed-size buffers of those lengths", ob_exact_sum),
    ("signature::Signature::<C>::default_serialize", "assert:overflow:Add"): (1, "sum of two fixed-size encoding lengths", None),
    ("keys::VerifiableSecretSharingCommitment::<C>::deserialize_whole", "call:slice::chunks_exact"): (1, "chunk size is the length of the generator's encoding, a non-zero type-level constant", None),
    ("keys::reconstruct", "call:Option::expect"): (1, "min() of a non-empty slice: guarded by the is_empty refusal", ob_sep(cmp_fact("empty", arg(1), None, True), cmp_fact("eq", length(arg(1)), const(0), True))),
    ("keys::evaluate_polynomial", "call:Option::expect"): (1, "callers pass coefficient vectors built by generate_secret_polynomial (secret prepended: non-empty) or the caller's own honestly generated secret package", None),
    ("keys::default_identifiers::{closure#0}", "call:Result::expect"): (1, "Identifier::try_from(i) for i in 1..=max: i != 0", ob_default_identifiers),
    ("round1::commit", "call:Option::expect"): (2, "preprocess(1, ..) returns one pair", ob_commit),
    ("scalar_mul::VartimeMultiscalarMul::vartime_multiscalar_mul", "call:Option::expect"): (1, "all elements are Some and both sequences have equal length at the two call sites", ob_multiscalar_callers),
    ("signing_key::SigningKey::<C>::default_sign", "call:Result::expect"): (1, "challenge() only fails on identity inputs; R = G*k with k != 0 (random_nonzero) and the key is non-zero by construction (own honest state)", None),
    ("<frost_core::identifier::Identifier<C> as core::convert::TryFrom<u16>>::try_from", "assert:overflow:Mul"): (1, "2 * 8 (byte length of u16 times 8)", None),
    ("<frost_core::identifier::Identifier<C> as core::convert::TryFrom<u16>>::try_from", "assert:overflow:Sub"): (2, "16 - leading_zeros(n) - 1 with n != 0 (leading_zeros <= 15)", ob_sep(cmp_fact("eq", arg(1), const(0), True))),
    ("<frost_core::identifier::Identifier<C> as core::convert::TryFrom<u16>>::try_from", "assert:overflow:Shl"): (1, "1u16 << i with i < 16 - leading_zeros - 1 <= 15", ob_sep(cmp_fact("eq", arg(1), const(0), True))),
    # threshold arithmetic
    ("keys::split", "assert:overflow:Sub"): (1, "min_signers as usize - 1 after validate_num_of_signers (min >= 2)", ob_validated_min(arg(3))),
    ("keys::dkg::part1", "assert:overflow:Sub"): (1, "min_signers as usize - 1 after validate_num_of_signers", ob_validated_min(arg(3))),
    ("keys::refresh::refresh_dkg_part1", "assert:overflow:Sub"): (1, "min_signers as usize - 1 after validate_num_of_signers", ob_validated_min(arg(3))),
    ("keys::refresh::compute_refreshing_shares", "assert:overflow:Sub"): (1, "min_signers as usize - 1 after validate_num_of_signers", ob_validated_min(some(fld(arg(1), "min_signers")))),
    ("keys::generate_secret_polynomial", "assert:overflow:Sub"): (1, "min_signers as usize - 1 after validate_num_of_signers", ob_validated_min(arg(3))),
    ("keys::generate_secret_polynomial", "call:Vec::insert"): (1, "insert at index 0 (always <= len)", lambda ctx, f, v, bl: all(const(0)(v.call_args(b)[1]) for b in bl)),
    ("keys::dkg::part2", "assert:overflow:Sub"): (1, "max_signers - 1 of the caller's own round-one secret package (validated >= 2 in part1)", None),
    ("keys::dkg::part3", "assert:overflow:Sub"): (1, "max_signers - 1 of the caller's own round-two secret package", None),
    ("keys::refresh::refresh_dkg_part2", "assert:overflow:Sub"): (1, "max_signers - 1 of the caller's own secret package", None),
    ("keys::refresh::refresh_dkg_shares", "assert:overflow:Sub"): (1, "max_signers - 1 of the caller's own secret package", None),
    ("keys::refresh::refresh_dkg_shares", "call:Vec::insert"): (1, "insert at index 0", lambda ctx, f, v, bl: all(const(0)(v.call_args(b)[1]) for b in bl)),
    ("keys::refresh::compute_refreshing_shares", "call:Vec::remove"): (1, "commitment produced by generate_secret_shares in the same call: min_signers >= 2 coefficients", lambda ctx, f, v, bl: all(
        const(0)(v.call_args(b)[1]) and mentions(v.call_args(b)[0], lambda s: is_call(s, name="generate_secret_shares")) for b in bl)),
    ("keys::refresh::refresh_dkg_part1", "call:Vec::remove"): (1, "commitment produced by generate_secret_polynomial in the same call: >= 2 coefficients", lambda ctx, f, v, bl: all(const(0)(v.call_args(b)[1]) for b in bl)),
    ("keys::refresh::refresh_dkg_part2", "call:Vec::remove"): (1, "the identity coefficient was prepended to this vector earlier in the same call: non-empty", lambda ctx, f, v, bl: all(
        const(0)(v.call_args(b)[1]) and prefixed_nonempty(v.call_args(b)[0]) for b in bl)),
    ("keys::repairable::repair_share_part1", "assert:overflow:Sub"): (1, "helpers.len() - 1: helpers contains the caller's identifier (non-empty) / has >= min_signers elements", ob_sep(
        cmp_fact("contains", arg(1), fld(arg(2), "identifier"), False))),
    # --- scalar_mul.rs (allows itself indexing): arithmetic relations between naf_length, num_limbs and pos
    ("scalar_mul::NonAdjacentForm<C>>::non_adjacent_form", "call:panic:panic"): (2, "debug_assert!(2 <= w <= 8): the only caller passes the literal 5", lambda ctx, f, v, bl: all(
        const(5)(a[1]) for g in ctx.prog.fns.values() if g.has_body for (bb, t, ci) in g.calls() if ci and ci.get("name") == "non_adjacent_form"
        for a in [FnView.get(ctx.prog, g).call_args(bb)])),
    ("scalar_mul::NonAdjacentForm<C>>::non_adjacent_form", "assert:overflow:Mul"): (2, "serialization_len * 8 and num_limbs * 8 with serialization_len <= 57", None),
    ("scalar_mul::NonAdjacentForm<C>>::non_adjacent_form", "assert:overflow:Add"): (5, "pos / naf_length / carry arithmetic bounded by naf_length <= 457", None),
    ("scalar_mul::NonAdjacentForm<C>>::non_adjacent_form", "assert:overflow:Sub"): (3, "64 - w, 64 - bit_idx (bit_idx in 0..64, reached only when bit_idx >= 64 - w > 0), width - 1", None),
    ("scalar_mul::NonAdjacentForm<C>>::non_adjacent_form", "assert:overflow:Shl"): (2, "1 << w (w = 5), x << (64 - bit_idx) with bit_idx >= 59", None),
    ("scalar_mul::NonAdjacentForm<C>>::non_adjacent_form", "assert:overflow:Shr"): (2, "x >> bit_idx with bit_idx = pos % 64", None),
    ("scalar_mul::NonAdjacentForm<C>>::non_adjacent_form", "call:num::div_ceil"): (1, "divisor is the constant 64", lambda ctx, f, v, bl: all(strip_casts(v.call_args(b)[1])[0] == ("const", "u32", 64) or const_only(v.call_args(b)[1]) for b in bl)),
    ("scalar_mul::NonAdjacentForm<C>>::non_adjacent_form", "call:IndexMut::index_mut"): (4, "padded[..len] (len <= num_limbs*8), x_u64[0..num_limbs], naf[pos] with pos < naf_length (loop condition)", None),
    ("scalar_mul::NonAdjacentForm<C>>::non_adjacent_form", "call:Index::index"): (3, "x_u64[pos/64] with pos < naf_length <= 64*num_limbs; x_u64[1+pos/64] only when the window crosses a limb and more bits remain (naf_length = 8*len+1 leaves the top limb partially used)", None),
    ("scalar_mul::NonAdjacentForm<C>>::non_adjacent_form", "call:slice::copy_from_slice"): (1, "destination padded[..serialization_len] and source have length serialization_len", None),
    ("scalar_mul::NonAdjacentForm<C>>::non_adjacent_form", "call:byteorder::read_u64_into"): (1, "source has num_limbs*8 bytes, destination num_limbs u64s", None),
    ("scalar_mul::VartimeMultiscalarMul<C>>::optional_multiscalar_mul", "call:Index::index"): (5, "nafs[0] after the is_empty return; naf[i] with i < naf_length = nafs[0].len() and all NAFs of one ciphersuite have equal length", ob_first_after_empty_return),
    ("scalar_mul::VartimeMultiscalarMul<C>>::optional_multiscalar_mul", "assert:overflow:Neg"): (1, "-naf[i] for an i8 digit in (-16, 0)", None),
    ("scalar_mul::LookupTable5::<C, T>::select", "call:panic:assert_failed"): (1, "debug_assert_eq!(x & 1, 1): NAF digits are odd", None),
    ("scalar_mul::LookupTable5::<C, T>::select", "call:panic:panic"): (1, "debug_assert!(x < 16): width-5 NAF digits", None),
    ("scalar_mul::LookupTable5::<C, T>::select", "assert:bounds"): (1, "bytes[x/2] with x < 16", None),
    ("::Element>>::from", "assert:bounds"): (2, "Ai[i], Ai[i+1] for i in 0..7 on [T; 8]", None),
    ("::Element>>::from", "assert:overflow:Add"): (1, "i + 1 for i in 0..7", None),
    # --- ciphersuite crates
    ("ScalarField as frost_core::traits::Field>::invert", "call:CtOption::unwrap"): (1, "invert() of a non-zero scalar: guarded by the zero refusal (`== zero()` or `is_zero()`)", ob_sep(
        cmp_fact("eq", contains_term(arg(1)), lambda t: is_call(t, name="zero") or (t[0] == "const" and "ZERO" in str(t[2])), True),
        lambda fa: (("fail" if fa[4] else "pass") if fa[0] == "cond" and fa[1] == "other" and
                    (lambda c: is_call(c, name="is_zero") and len(c[2]) == 1 and mentions(c[2][0], arg(1)))(pred_core(fa[2])[0]) else None))),
    ("Group as frost_core::traits::Group>::serialize", "call:slice::copy_from_slice"): (1, "compressed SEC1 encoding of a non-identity point is 33 bytes; the identity (1 byte) is refused first", ob_sep(
        cmp_fact("eq", contains_term(arg(1)), lambda t: mentions(t, lambda s: is_call(s, name="identity") or (s[0] == "const" and "IDENTITY" in str(s[2]))), True))),
    ("::hash_to_array", "call:slice::copy_from_slice"): (1, "digest output size equals the array size (type-level constants)", None),
    ("::hash_to_scalar", "call:Result::expect"): (1, "hash_to_field fails only for an over-long DST / zero-length request; DST is contextString || tag (literals)", None),
    ("frost_secp256k1_tr::hasher_to_scalar", "call:crypto_bigint::from_be_slice"): (1, "SHA-256 output is 32 bytes = U256", None),
    ("<frost_secp256k1_tr::Secp256K1Sha256TR as frost_core::traits::Ciphersuite>::serialize_signature", "call:IndexMut::index_mut"): (2, "bytes[..32] / bytes[32..] on vec![0; 64]", None),
    ("<frost_secp256k1_tr::Secp256K1Sha256TR as frost_core::traits::Ciphersuite>::serialize_signature", "call:Index::index"): (1, "R_bytes[1..] on [u8; 33]", None),
    ("<frost_secp256k1_tr::Secp256K1Sha256TR as frost_core::traits::Ciphersuite>::serialize_signature", "call:slice::copy_from_slice"): (2, "32-byte slices on both sides", None),
    ("<frost_secp256k1_tr::Secp256K1Sha256TR as frost_core::traits::Ciphersuite>::deserialize_signature", "call:IndexMut::index_mut"): (1, "R_bytes[1..] on [u8; 33]", None),
    ("<frost_secp256k1_tr::Secp256K1Sha256TR as frost_core::traits::Ciphersuite>::deserialize_signature", "call:Index::index"): (2, "bytes[..32] / bytes[32..]: behind the exact-length refusal", ob_exact(64)),
    ("<frost_secp256k1_tr::Secp256K1Sha256TR as frost_core::traits::Ciphersuite>::deserialize_signature", "call:slice::copy_from_slice"): (2, "32-byte slices on both sides: behind the exact-length refusal", ob_exact(64)),
    ("<frost_core::signing_key::SigningKey<frost_secp256k1_tr::Secp256K1Sha256TR> as frost_secp256k1_tr::keys::EvenY>::into_even_y", "call:Result::expect"): (1, "negation of a non-zero scalar is non-zero (SigningKey is non-zero by construction)", None),
}


_callers = {}


def nosite(t):
    """a term without its call sites: two calls of a pure method on the same value are the same value"""
    if not isinstance(t, tuple) or not t:
        return t
    if t[0] == "call":
        return ("call", t[1], tuple(nosite(x) for x in t[2]), None) + tuple(t[4:])
    return tuple(nosite(x) if isinstance(x, tuple) else x for x in t)


def _strip_buf(t):
    """the buffer a length is taken of, through in-place updates and views: len(buf{as_mut(); copy_from_slice(..)}) is len(buf)"""
    while isinstance(t, tuple) and t:
        if t[0] == "mut":
            t = t[1]
        elif is_call(t) and t[1].rsplit("::", 1)[-1] in ("as_ref", "as_mut", "as_slice", "as_mut_slice", "deref", "deref_mut", "borrow") and len(t[2]) == 1:
            t = t[2][0]
        else:
            break
    return t


def fixed_len(P, t, depth=0):
    """length of a byte string fixed by its *type* (`[u8; N]` produced by a call, e.g. `Group::serialize(..)?` of a suite whose
    Serialization is `[u8; 33]`), also through `split_at(k)` at a constant position: an int, or None"""
    if depth > 4 or not isinstance(t, tuple) or not t:
        return None
    t = _strip_buf(t)
    if t[0] in ("ok", "some"):
        inner = t[1]
        while isinstance(inner, tuple) and inner and inner[0] in ("map_err", "ok_or"):
            inner = inner[1]
        if is_call(inner):
            ci, term = call_info(P, inner)
            if term is not None and term.get("dest") is not None:
                site = inner[3]
                g = P.fns.get(site[2] if site[0] == "inl" else site[0])
                n = array_len_of_type(g.local_ty(term["dest"]["l"])) if g is not None else None
                if n is not None:
                    return n
        return fixed_len(P, inner, depth + 1)
    if is_call(t):
        ci, term = call_info(P, t)
        if term is not None and term.get("dest") is not None:
            site = t[3]
            g = P.fns.get(site[2] if site[0] == "inl" else site[0])
            ty = g.local_ty(term["dest"]["l"]) if g is not None else ""
            if ty.startswith("[u8; ") or ty.startswith("&[u8; "):
                return array_len_of_type(ty)
    if t[0] == "field" and t[2] is None and t[3] in ("0", "1") and is_call(t[1], name="split_at") and len(t[1][2]) == 2:
        k = t[1][2][1]
        n = fixed_len(P, t[1][2][0], depth + 1)
        if n is not None and k[0] == "const" and isinstance(k[2], int) and k[2] <= n:
            return k[2] if t[3] == "0" else n - k[2]
    return None


def assertion_discharge(P, f, v, bb):
    """an `assert_eq!` / `debug_assert_eq!` site (call into core::panicking::assert_failed) whose condition cannot be false there:
       (a) every path to the site crosses an edge on which the very same comparison has the asserted truth value (it restates a
           check made before), or
       (b) it asserts len(X) == len(Y) and the function also runs `X.copy_from_slice(Y)` after it — the copy aborts under exactly
           that condition, and carries the review.
    Returns an "alias:" kind, or None (the site then needs a reviewed row like any other)."""
    writes = {bb}
    region = {q for q in f.normal_blocks() if f.reach(q) & {b for b in f.normal_blocks() if f.blocks[b].term["k"] in ("return",)} == set()
              and bb in f.reach(q)}
    region.add(bb)
    entry = [(p, q, lab) for q in region for (p, lab) in f.preds().get(q, ()) if p not in region]
    facts = [fa for e in entry for (e2, fa) in v.own_facts if e2 == e and fa[0] == "cond" and fa[1] not in ("other",) and fa[3] is not None]
    if len(entry) == 1:
        # (e) `assert!(!x.is_empty())` where the function goes on to compute `x.len() - c` (c >= 1): the subtraction aborts under
        #     exactly that condition and carries the review
        for (e2, fa) in v.own_facts:
            if e2 == entry[0] and fa[0] == "cond" and fa[1] == "empty" and fa[4]:
                X = _strip_buf(fa[2])
                after = f.reach(entry[0][0])
                for b2 in after:
                    t2 = f.blocks[b2].term
                    if t2["k"] == "assert" and t2.get("kind") == "overflow:Sub":
                        c2 = v.cx.operand(t2["cond"])
                        c2 = c2[1] if c2[0] == "field" and c2[3] == "1" else c2
                        if c2[0] == "bin" and c2[1] == "SubWithOverflow" and c2[3][0] == "const" and isinstance(c2[3][2], int) and c2[3][2] >= 1:
                            L = c2[2]
                            LX = _strip_buf(L[2][0]) if is_call(L, name="len") and len(L[2]) == 1 else (_strip_buf(L[1]) if L[0] == "len" else None)
                            if LX is not None and LX == X:
                                return "alias:assert:overflow:Sub"
    if len(entry) != 1 or not facts:
        return None
    fa = facts[0]
    kind, a, b_, holds = fa[1], fa[2], fa[3], fa[4]
    same = lambda g: g[0] == "cond" and g[1] == kind and g[4] != holds and ((g[2] == a and g[3] == b_) or (kind == "eq" and g[2] == b_ and g[3] == a))
    dom = {e for (e, g) in v.own_facts if same(g) and e[0] != entry[0][0]}
    if dom and not sep(f, dom, {bb}):
        return "alias:a-check-made-before"
    # (c) an input-independent condition: both sides are constants of the build — literals, associated / private consts, the
    #     output length of a fixed-output hash (`hasher.finalize().len()` is fixed by the hasher's type) — so the assertion holds
    #     for every input or for none (and then every call aborts, which the suite's debug builds would show)
    def fixed(t):
        if t[0] in ("const", "uneval") or (isinstance(t[0], str) and t[0].startswith("uneval")):
            return True
        if isinstance(t, str):
            return t.startswith("uneval")
        X = t[2][0] if is_call(t, name="len") and len(t[2]) == 1 else (t[1] if t[0] == "len" else None)
        if X is not None:
            if fixed_len(P, X) is not None:
                return True
            X = _strip_buf(X)
            if is_call(X) and X[1].rsplit("::", 1)[-1] in ("finalize", "finalize_fixed", "finalize_reset", "finalize_fixed_reset") and \
                    ("Digest" in X[1] or "FixedOutput" in X[1]):
                return True
        return arg_free(t) and not mentions(t, lambda s_: is_call(s_) and s_[1].rsplit("::", 1)[-1] in ("random", "fill_bytes", "next"))
    if fixed(a) and fixed(b_):
        return "alias:input-independent-condition"
    # (f) `assert!(x < N)` where the function goes on to compute `N - x - 1`: that subtraction aborts exactly when x >= N
    if kind == "lt" and not holds and b_[0] == "const" and isinstance(b_[2], int):
        after = f.reach(entry[0][0])
        for b2 in after:
            t2 = f.blocks[b2].term
            if t2["k"] == "assert" and t2.get("kind") == "overflow:Sub":
                c2 = v.cx.operand(t2["cond"])
                c2 = c2[1] if c2[0] == "field" and c2[3] == "1" else c2
                if c2[0] == "bin" and c2[1] == "SubWithOverflow" and c2[3] == ("const", c2[3][1], 1) and \
                        c2[2][0] == "bin" and c2[2][1] == "Sub" and c2[2][2][0] == "const" and c2[2][2][2] == b_[2] and \
                        nosite(c2[2][3]) == nosite(a) and is_call(a) and a[1].rsplit("::", 1)[-1] in ("leading_zeros", "trailing_zeros", "len", "count_ones"):
                    return "alias:assert:overflow:Sub"
    # (d) `assert!(x < N)` with a static upper bound of x below the constant N
    if kind == "lt" and not holds and b_[0] == "const" and isinstance(b_[2], int):
        ub = upper_bound(a)
        if ub is not None and ub < b_[2]:
            return "alias:static-upper-bound-below-the-limit"
    if kind == "eq" and not holds:
        ln = lambda t: _strip_buf(t[2][0]) if is_call(t, name="len") and len(t[2]) == 1 else (_strip_buf(t[1]) if t[0] == "len" else None)
        X, Y = ln(a), ln(b_)
        if X is not None and Y is not None:
            after = f.reach(entry[0][0])
            for (b2, t2, ci2) in f.calls():
                if ci2 and ci2.get("name") == "copy_from_slice" and b2 in after:
                    ca = v.call_args(b2)
                    if len(ca) == 2 and {_strip_buf(ca[0]), _strip_buf(ca[1])} == {X, Y}:
                        return "alias:call:slice::copy_from_slice"
    return None


def normal_kind(P, f, v, k, bb):
    """equivalent spellings of one panic share a kind: `match x { Err(_) => panic!(..) }` / `let Ok(v) = x else { panic!() }` is
    `x.expect(..)`; `<[u8; N]>::try_from(s).expect(..)` / `s.try_into().unwrap()` is `buf.copy_from_slice(s)` (both abort exactly
    when the slice is not N long)"""
    t = f.blocks[bb].term
    if k.startswith("call:panic:"):
        # reached only through the failure edge of a Result / Option test?
        for (e, fa) in v.own_facts:
            if fa[0] == "succ" and not fa[2]:
                oks_ = [e2 for (e2, f2) in v.own_facts if e2[0] == e[0] and f2[0] == "succ" and f2[2]]
                reach_ok = set().union(*[f.reach(e2[1], stop=frozenset({e[0]})) - {e[0]} for e2 in oks_]) if oks_ else set()
                if bb in f.reach(e[1]) - reach_ok and not sep(f, {e}, {bb}):
                    ty = f.local_ty(0)
                    src = peel_result(fa[1])
                    is_opt = src[0] in ("some",) or (is_call(src) and (P.fns.get(src[1]) is not None and (P.fns[src[1]].j.get("output") or "").startswith("core::option")))
                    return "call:Option::expect" if is_opt else "call:Result::expect"
    if k[5:] in ("Result::expect", "Result::unwrap") and t["k"] == "call":
        a = v.call_args(bb)
        if a and is_call(a[0]) and a[0][1].rsplit("::", 1)[-1] in ("try_into", "try_from") and "array" in (a[0][1] + str(a[0][4] or "")).lower() or \
                (a and is_call(a[0]) and a[0][1].rsplit("::", 1)[-1] in ("try_into", "try_from") and "; " in f.local_ty(t["dest"]["l"])):
            return "call:slice::copy_from_slice"
    if k[5:] in ("Option::unwrap", "Option::expect") and t["k"] == "call":
        # `Option::from(ct_option).expect(..)` is `ct_option.unwrap()`: both abort exactly when the CtOption is none
        a = v.call_args(bb)
        if a and is_call(a[0]) and a[0][1].rsplit("::", 1)[-1] in ("from", "into") and len(a[0][2]) == 1:
            ci2, term2 = call_info(P, a[0])
            if term2 is not None and any("CtOption" in ty for ty in term2.get("arg_tys", [])):
                return "call:CtOption::unwrap"
    if k[5:] in ("Option::unwrap", "Result::unwrap"):
        return k.replace("unwrap", "expect")
    if k == "call:slice::split_at" and t["k"] == "call":
        # `x.split_at(k)` aborts exactly when `x[..k]` / `x[k..]` does (k > len): the same kind as the slicing it replaces
        a = v.call_args(bb)
        if len(a) == 2 and a[1][0] == "const" and isinstance(a[1][2], int):
            n_ = fixed_len(P, a[0])
            if n_ is not None and a[1][2] <= n_:
                return "alias:constant-position-within-a-length-fixed-by-type"
            return "call:Index::index"
        if len(a) == 2:
            # `x.split_at(k)` behind the refusal `x.len() != k + m` (or `!= k`): k <= len on every path to the site
            X, K = _strip_buf(a[0]), a[1]
            def est(fa):
                if fa[0] != "cond" or fa[1] != "eq" or fa[3] is None or not fa[4]:
                    return False
                for l_, r_ in ((fa[2], fa[3]), (fa[3], fa[2])):
                    LX = _strip_buf(l_[2][0]) if is_call(l_, name="len") and len(l_[2]) == 1 else (_strip_buf(l_[1]) if l_[0] == "len" else None)
                    if LX is not None and LX == X and (r_ == K or (r_[0] == "bin" and r_[1] == "Add" and K in (r_[2], r_[3]))):
                        return True
                return False
            edges = {e for (e, fa) in v.own_facts if est(fa)}
            if edges and not sep(f, edges, {bb}):
                return "alias:split-position-within-an-established-length"
    if k in ("call:panic:assert_failed", "call:panic:panic"):
        r = assertion_discharge(P, f, v, bb)
        if r is not None:
            return r
    if k == "assert:rem0" and t["k"] == "assert":
        # `len % size` next to `chunks_exact(size)`: both abort exactly when size == 0
        c = v.cx.operand(t["cond"])
        sizes = [v.call_args(b2)[1] for (b2, t2, ci2) in f.calls() if ci2 and ci2.get("name") == "chunks_exact" and len(v.call_args(b2)) == 2]
        if sizes and mentions(c, lambda s_: any(s_ == z for z in sizes)):
            return "alias:call:slice::chunks_exact"
    return k


def attributed(P, f, depth=0):
    """panic sites of a private helper with a single caller are reviewed as part of that caller (extracting a block of code
    into a helper does not create a new review obligation): the key of the function the sites are attributed to"""
    if id(P) not in _callers:
        idx = {}
        for g in P.fns.values():
            if not g.has_body:
                continue
            for (bb, t, ci) in g.calls():
                if ci:
                    for k in (ci.get("resolved"), ci.get("path")):
                        if k in P.fns and k != g.key:
                            idx.setdefault(k, set()).add(g.key)
        _callers[id(P)] = idx
    if any(f.key.endswith(suffix) for (suffix, _k) in REVIEWED):
        return f.key        # a function with reviewed rows of its own keeps them, however many callers it has in this configuration
    cs = _callers[id(P)].get(f.key, set())
    if depth < 3 and f.kind != "Closure" and f.j.get("vis", "") != "Public" and not f.j.get("impl_trait") and not f.j.get("reachable") \
            and len(cs) == 1 and f.crate.startswith("frost"):
        g = P.fns[next(iter(cs))]
        if g.kind != "Closure":
            return attributed(P, g, depth + 1)
    return f.key


def attributed_all(P, f):
    """like attributed(), for a private helper shared by a few callers (the same expression extracted from two functions): its
    sites are reviewed with *each* caller (every caller needs a row of that kind)"""
    one = attributed(P, f)
    if one != f.key:
        return [one]
    if any(f.key.endswith(suffix) for (suffix, _k) in REVIEWED):
        return [f.key]
    cs = _callers[id(P)].get(f.key, set())
    if f.kind != "Closure" and f.j.get("vis", "") != "Public" and not f.j.get("impl_trait") and not f.j.get("reachable") \
            and 2 <= len(cs) <= 3 and f.crate.startswith("frost") and all(P.fns[c].kind != "Closure" for c in cs):
        from ..inline import vocabulary
        if f.name not in vocabulary():
            return sorted({attributed(P, P.fns[c], 1) for c in cs})
    return [f.key]


def run(ctx):
    ctx.decided = ("every panic site in workspace library code (MIR Assert terminators for bounds/overflow/div/rem/neg "
                   "in a build with overflow checks and debug assertions on, calls into core::panicking and into the "
                   "audited may-panic API table) is either discharged by a generic rule (full-range index, constant "
                   "operands, argument-independent unwrap, serde field counter) or matches a reviewed row (function, "
                   "kind, multiplicity) whose guard obligation is re-checked on the CFG.")
    ctx.undecided = "panics inside dependencies; allocation failure."
    ctx.floor = 30 if ctx.core_only else 60
    ctx.assumptions.append("std APIs not in sa/panics.py's deny-list are total; non-std dependency functions are total "
                           "unless listed; the caller's own secret state is honestly generated (rows say so)")
    P = ctx.prog
    _PROG[:] = [P]
    inv = panics.inventory(P)
    groups = {}
    auto = 0
    for f, k, bb, line in inv:
        v = FnView.get(P, f)
        t = f.blocks[bb].term
        # generic discharges
        if t["k"] == "call":
            a = v.call_args(bb)
            if k in ("call:Index::index", "call:IndexMut::index_mut") and len(a) > 1 and a[1][0] == "agg" and (a[1][2] or "").endswith("RangeFull"):
                auto += 1
                ctx.ok("PANIC-auto", f.key, "%s@full-range" % k)
                continue
            if k[5:] in ("Option::expect", "Option::unwrap", "Result::expect", "Result::unwrap") and arg_free(a[0]) \
                    and not mentions(a[0], lambda s: is_call(s) and s[1].rsplit("::", 1)[-1] in ("random", "fill_bytes", "next", "pop", "first", "last", "get")):
                auto += 1
                ctx.ok("PANIC-auto", f.key, "%s@argument-independent" % k, {"operand": fmt(a[0])[:120]})
                continue
            if k[5:] in ("Option::expect", "Option::unwrap", "Result::expect", "Result::unwrap", "CtOption::unwrap", "CtOption::expect") and a:
                # x.unwrap() behind `if x.is_some()` / `if let Some(_) = x`: every path to the site crosses the success edge
                X = a[0]
                okm = lambda fa: ("pass" if (fa[2] if fa[0] == "succ" else fa[4]) else "fail") \
                    if ((fa[0] == "succ" and fa[1] == X) or (fa[0] == "cond" and fa[1] == "success" and fa[2] == X)) else None
                edges = {e for (e, fa) in v.facts if okm(fa) == "pass"}
                if edges and not sep(f, edges, {bb}):
                    auto += 1
                    ctx.ok("PANIC-auto", f.key, "%s@behind-its-own-success-test" % k)
                    continue
            if k == "call:slice::split_at" and len(a) > 1 and a[1][0] == "const" and isinstance(a[1][2], int):
                # split_at(const k) on a value whose type fixes its length N >= k: `<&[u8; N]>::try_from(x)` Ok payload / an array
                recv = a[0]
                while recv[0] in ("ok", "some"):
                    recv = recv[1]
                n_ = array_len_of_type(recv[4] if is_call(recv) and len(recv) > 4 and isinstance(recv[4], str) else "") if is_call(recv, name="try_from") else None
                if n_ is not None and a[1][2] <= n_:
                    auto += 1
                    ctx.ok("PANIC-auto", f.key, "%s@const-index-within-fixed-length" % k)
                    continue
            if k in ("call:Vec::insert",) and len(a) > 1 and const(0)(a[1]):
                auto += 1
                ctx.ok("PANIC-auto", f.key, "%s@index-0" % k)
                continue
        else:
            c = v.cx.operand(t["cond"])
            if k == "assert:overflow:Add" and sum_of_lengths(c):
                auto += 1
                ctx.ok("PANIC-auto", f.key, "%s@sum-of-in-memory-lengths" % k)
                continue
            if k in ("assert:overflow:Shl", "assert:overflow:Shr") and shift_in_range(c, closure_param_bounds(P, f)):
                auto += 1
                ctx.ok("PANIC-auto", f.key, "%s@shift-amount-below-width" % k, {"cond": fmt(c)[:120]})
                continue
            if const_only(c):
                auto += 1
                ctx.ok("PANIC-auto", f.key, "%s@constant-operands" % k, {"cond": fmt(c)})
                continue
            if within_constant_range(c, k):
                # index / small arithmetic on the variable of a loop over a constant range: `a[i]`, `a[i + 1]`, `i - 1` for
                # `i in 1..8` on an 8-element array
                auto += 1
                ctx.ok("PANIC-auto", f.key, "%s@loop-variable-of-a-constant-range" % k, {"cond": fmt(c)[:120]})
                continue
            if f.derive and "Serialize" in f.derive and k == "assert:overflow:Add":
                auto += 1
                ctx.ok("PANIC-auto", f.key, "%s@serde-field-counter" % k)
                continue
        nk = normal_kind(P, f, v, k, bb)
        if nk.startswith("alias:"):
            # aborts under exactly the condition of another site of this function, which carries the review
            auto += 1
            ctx.ok("PANIC-auto", f.key, "%s@same-condition-as:%s" % (k, nk[6:]))
            continue
        for owner in attributed_all(P, f):
            groups.setdefault((owner, nk), []).append((f.key, bb))
    used = set()
    for (fk, k), sites in sorted(groups.items()):
        f = P.fns[fk]
        own = [bb for (k_, bb) in sites if k_ == fk]
        moved = [(k_, bb) for (k_, bb) in sites if k_ != fk]
        blocks = own or [bb for (_, bb) in moved]
        if moved and not own:
            f = P.fns[moved[0][0]]
        if moved:
            ctx.note("PANIC", fk, "%d site(s) of kind %s sit in private single-caller helper(s) %s and are reviewed with their caller"
                     % (len(moved), k, sorted({short(k_) for k_, _ in moved})))
        blocks = [bb for (_, bb) in sites] if not moved else blocks
        row = None
        for (suffix, kind), r in REVIEWED.items():
            if kind == k and fk.endswith(suffix):
                row = r
                used.add((suffix, kind))
                break
        if row is None:
            # the same code moved between a function and its own closure (`.map(|i| f(i).expect(..))` <-> a loop doing the same):
            # the row reviewed for one member of the family applies, its obligation is re-checked on the current form
            root = lambda key: key.split("::{closure")[0]
            for (suffix, kind), r in REVIEWED.items():
                if kind == k and root(fk).endswith(root(suffix)) and (("{closure" in suffix) != ("{closure" in fk)) and \
                        (suffix, kind) not in used:
                    row = r
                    used.add((suffix, kind))
                    break
        where = "%s" % fk
        if row is None:
            ctx.violation("PANIC", where, k,
                          "unreviewed panic site(s) %s in %s at %s: input reaching this function may abort the process; "
                          "guard it, return an error, or add a reviewed row with its reason" %
                          (k, short(fk), ", ".join(loc_of(f, b) for b in blocks)), loc_of(f, blocks[0]))
            continue
        cnt, why, ob = row
        if len(sites) > cnt:
            ctx.violation("PANIC", where, k + ":multiplicity",
                          "%d site(s) of kind %s in %s, %d reviewed (%s): a new site appeared; re-review"
                          % (len(blocks), k, short(fk), cnt, why), loc_of(f, blocks[0]))
            continue
        if ob is not None:
            # obligations are evaluated with private helpers that no rule names expanded in place (original block numbers are
            # preserved by the expansion, so the site blocks stay valid)
            from ..inline import expand
            if not hasattr(P, "_expanded"):
                P._expanded = {}
            if f.key not in P._expanded:
                P._expanded[f.key] = expand(P, f)
            f = P._expanded[f.key]
            v = FnView.get(P, f)
            try:
                good = bool(ob(ctx, f, v, set(blocks)))
            except Exception as e:  # an obligation that cannot be evaluated is not discharged
                good = False
            ctx.check(good, "PANIC-guard", where, k,
                      "the guard that makes panic site %s in %s unreachable for bad input no longer holds (%s)"
                      % (k, short(fk), why), loc_of(f, blocks[0]), {"reason": why})
        else:
            ctx.ok("PANIC-reviewed", where, k, {"reason": why, "sites": len(blocks)})
    ctx.extra["panic_sites_total"] = len(inv)
    ctx.extra["auto_discharged"] = auto
    ctx.extra["reviewed_rows_used"] = len(used)
    # entry points walked
    ctx.extra["public_functions"] = sum(1 for f in P.fns.values() if f.j.get("reachable"))
