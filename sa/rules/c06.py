"""C06 — dealer key generation yields consistent, verifiable shares of the given key."""
from ..lib import *
from ..terms import TermCx, fmt
from .c04 import next_item, tfield

CORE = "frost_core::"
TRYFROM = "<frost_core::keys::KeyPackage<C> as core::convert::TryFrom<frost_core::keys::SecretShare<C>>>::try_from"


def gen_times(t, scalar_pred):
    """G * s"""
    return (is_call(t, name="mul") and len(t[2]) == 2 and is_call(t[2][0], name="generator") and scalar_pred(t[2][1]))


def unwrap_newtypes(t):
    """peel newtype aggregates VerifyingShare{0: SerializableElement{0: x}} -> x"""
    while isinstance(t, tuple) and t[0] == "agg" and t[1] == "adt" and len(t[4]) == 1:
        t = t[4][0][1]
    return t


def check_validate(ctx):
    f = ctx.anchor(CORE + "keys::validate_num_of_signers")
    if not f:
        return False
    two = const(2)
    a = refusal(ctx, f, "SEP", "G10:min<2", [("min<2", cmp_fact("lt", arg(1), two, True))], ok_sinks(f))
    b = refusal(ctx, f, "SEP", "G10:max<2", [("max<2", cmp_fact("lt", arg(2), two, True))], ok_sinks(f))
    c = refusal(ctx, f, "SEP", "G10:min>max", [("max<min", cmp_fact("lt", arg(2), arg(1), True))], ok_sinks(f))
    return a and b and c


def default_identifier_range(ctx):
    """default identifiers are 1..=max_signers (inclusive range: no overflow at 65535, none missing)"""
    P = ctx.prog
    f = ctx.anchor(CORE + "keys::default_identifiers")
    if not f:
        return
    v = FnView.get(P, f)
    t = v.cx.local(0)
    # one identifier per element of the inclusive range, in order — `.map(..).collect()` or a push loop
    m = mapping_of(P, f, v, t)
    src = m["source"] if m else None
    good = bool(m) and m["key"] is None and is_call(src, name="new") and "RangeInclusive" in src[1] and \
        src[2] == (("const", "u16", 1), ("arg", 1))
    if good:
        ct = m["val"]
        good = is_call(ct, name="expect") and is_call(ct[2][0], name="try_from") and ct[2][0][2][0] == ITEM
    ctx.check(good and {k for k in adaptor_inventory(f) if k not in LOOKUPS} == set(), "PROV", f.key, "identifiers==1..=max_signers",
              "default identifiers must be Identifier::try_from(i) for every i in the inclusive range 1..=max_signers: %s" % fmt(t)[:160], f.loc)


def run(ctx):
    ctx.decided = ("parameter refusals (t<2, n<2, t>n, wrong number of / duplicate identifiers) gate share production; "
                   "a KeyPackage is built from a SecretShare only behind the success edge of its verification, with "
                   "identifier/share copied, verifying share and key taken from the verification, and the threshold "
                   "recorded from the commitment length without truncation; the share check compares G*s with the "
                   "commitment evaluated at the share's own identifier over every coefficient; every generated share "
                   "enters both output maps and each verifying share is G * that share; recorded threshold = t. Kernels (any form: loop or iterator chain): Horner evaluation over coefficients[1..] reversed plus c_0; reconstruct returns the sum over every given package of lambda_i(0; all given identifiers)*s_i.")
    ctx.undecided = "the polynomial identities (degree exactly t-1, reconstruction values): numeric."
    ctx.floor = 20
    refusal_inventory(ctx)
    P = ctx.prog
    wrappers(ctx, ['keys::generate_with_dealer', 'keys::split', 'keys::reconstruct'])
    validate_ok = check_validate(ctx)

    gsp = ctx.anchor(CORE + "keys::generate_secret_polynomial")
    gss = ctx.anchor(CORE + "keys::generate_secret_shares")
    split = ctx.anchor(CORE + "keys::split")
    inner_validates = False
    if gsp and gss:
        v = FnView.get(P, gsp)
        m = succ_fact(call("validate_num_of_signers", arg(3), arg(2)))
        a = not sep(gsp, {e for (e, fa) in v.facts if m(fa) == "pass"}, ok_sinks(gsp))
        v2 = FnView.get(P, gss)
        m2 = succ_fact(call("generate_secret_polynomial", arg(1), arg(2), arg(3)))
        b = not sep(gss, {e for (e, fa) in v2.facts if m2(fa) == "pass"}, ok_sinks(gss))
        inner_validates = a and b
    if split:
        v = FnView.get(P, split)
        mech = [("validate_num_of_signers(min,max)?", succ_fact(call("validate_num_of_signers", arg(3), arg(2))))]
        if inner_validates:
            mech.append(("generate_secret_shares(..max,min..)?", succ_fact(
                lambda t: is_call(t, name="generate_secret_shares") and t[2][1] == ("arg", 2) and t[2][2] == ("arg", 3))))
        if validate_ok:
            refusal(ctx, split, "SEP", "G11:parameters-validated", mech, ok_sinks(split), require_fail_err=False)
            # .. and before they are *used*: the polynomial size `min_signers - 1` is computed only from validated parameters (an
            # invalid threshold must be refused with an error, not reach the arithmetic)
            uses = call_sinks(split, lambda ci, t: ci and ci.get("name") == "generate_coefficients")
            if uses:
                refusal(ctx, split, "SEP", "G11b:validated-before-the-polynomial-size-is-computed", mech[:1], uses, require_fail_err=False)
        w = Width()
        custom = lambda t: t[0] == "field" and t[1][0] == "variant" and t[1][2] == "Custom" and t[1][1] == ("arg", 4)
        refusal(ctx, split, "SEP", "G12:custom-list-length",
                [("len!=max", cmp_fact("eq", w.of(length(custom)), w.of(arg(2)), False)),
                 ("default-list", lambda fa: "pass" if fa[0] == "variant" and fa[1] == ("arg", 4) and fa[2] == "Default"
                  else None)],
                ok_sinks(split), width=w, require_fail_err=False)
        # every generated share enters both maps; verifying share = G * that share; threshold recorded
        lr = reductions(ctx, split.key, adaptors={}, min_loops=1)
        oks = ok_values(split, v)
        good = False
        det = ""
        if len(oks) == 1:
            pg = [s for s in subterms(oks[0]) if is_call(s, name="post_generate")]
            if pg:
                shares_map, pkp = pg[0][2][0], pg[0][2][1]
                det = fmt(pkp)[:400]
                if pkp[0] == "agg":
                    fields = dict(pkp[4])
                    cs = map_components(P, split, v, shares_map)
                    cv_ = map_components(P, split, v, fields.get("verifying_shares", ("x",)))
                    from_gss = lambda src: mentions(src, lambda s: is_call(s, name="generate_secret_shares") and s[2][0] == ("arg", 1)
                                                    and s[2][1] == ("arg", 2) and s[2][2] == ("arg", 3)) and \
                        not mentions(src, lambda s: is_call(s) and s[1].rsplit("::", 1)[-1] in TRUNCATING - LOOKUPS)
                    if len(cs) == 1 and len(cv_) == 1 and cs[0][0] == "each" and cv_[0][0] == "each" and from_gss(cs[0][1]) and cs[0][1] == cv_[0][1]:
                        key_s, share = cs[0][2], cs[0][3]
                        key_v, val_v = cv_[0][2], unwrap_newtypes(cv_[0][3])
                        idf = lambda t: is_field(strip_newtype_fields(t), "SecretShare", "identifier") and strip_newtype_fields(t)[1] == ITEM or \
                            (is_field(t, "SecretShare", "identifier") and t[1] == ITEM)
                        good = (idf(key_s) and share == ITEM and idf(key_v)
                                and gen_times(val_v, lambda s: mentions(s, lambda u: is_field(u, "SecretShare", "signing_share") and u[1] == ITEM)))
                        ms = fields.get("min_signers")
                        good = good and ms is not None and ms[0] == "agg" and ms[3] == "Some" and ms[4][0][1] == ("arg", 3)
                        vk = unwrap_newtypes(fields.get("verifying_key"))
                        good = good and gen_times(vk, lambda s: is_field(s, "SigningKey", "scalar") and s[1] == ("arg", 1))
        ctx.check(good, "PROV", split.key, "outputs-wired",
                  "split's outputs are not wired as: secret_shares[id] = share, verifying_shares[id] = G * that "
                  "share's signing share, verifying_key = G * key, min_signers = Some(min_signers) (%s)" % det,
                  split.loc)
    if gss:
        v = FnView.get(P, gss)
        refusal(ctx, gss, "SEP", "G13:duplicate-identifiers",
                [("set.len!=len", cmp_fact("eq", length(dedup_of(ctx.prog, gss, FnView.get(ctx.prog, gss), arg(5))),
                                           length(arg(5)), False))], ok_sinks(gss))
        reductions(ctx, gss.key, adaptors={}, min_loops=1)
        # the returned vector, in whatever form it is built (push loop, map/collect): one share per identifier of the list
        oks_ = ok_values(gss, v)
        comps = map_components(P, gss, v, oks_[0]) if len(oks_) == 1 else []
        good = len(comps) == 1 and comps[0][0] == "each" and comps[0][2] is None and comps[0][1] == ("arg", 5)
        if good:
            sh = comps[0][3]
            item = lambda t: t == ITEM
            fields = dict(sh[4]) if sh[0] == "agg" else {}
            poly = lambda t: t[0] == "ok" and is_call(t[1], name="generate_secret_polynomial")
            ss = unwrap_newtypes(fields.get("signing_share", ("x",)))
            good = (item(fields.get("identifier", ("x",)))
                    and is_call(ss, name="evaluate_polynomial") and item(strip_newtype_fields(ss[2][0])) and tfield(poly, 0)(ss[2][1])
                    and tfield(poly, 1)(fields.get("commitment", ("x",))))
        ctx.check(good, "PROV", gss.key, "share-is-f(id)-with-the-commitment",
                  "each SecretShare must be {identifier: id, signing_share: evaluate_polynomial(id, coefficients of the "
                  "generated polynomial), commitment: that polynomial's commitment} for every id of the list", gss.loc)

    tf = ctx.anchor(TRYFROM)
    if tf:
        v = FnView.get(P, tf)
        refusal(ctx, tf, "SEP", "G15:verify-before-KeyPackage",
                [("SecretShare::verify", succ_fact(call("verify", arg(1))))], ok_sinks(tf), require_fail_err=False)
        oks = ok_values(tf, v)
        good = len(oks) == 1 and oks[0][0] == "agg"
        narrow = []
        if good:
            fl = dict(oks[0][4])
            ver = lambda t: t[0] == "ok" and is_call(t[1], name="verify") and t[1][2][0] == ("arg", 1)
            w = Width()
            ms_ok = w.of(length(fld(fld(arg(1), "commitment"), "0")))(fl["min_signers"]) or \
                (fl["min_signers"][0] in ("ok", "some") and mentions(fl["min_signers"], length(fld(fld(arg(1), "commitment"), "0"))))
            narrow = w.narrow
            good = (fld(arg(1), "identifier")(fl["identifier"]) and fld(arg(1), "signing_share")(fl["signing_share"])
                    and tfield(ver, 0)(fl["verifying_share"]) and tfield(ver, 1)(fl["verifying_key"]) and ms_ok)
        ctx.check(good, "PROV", tf.key, "fields-from-verified-share",
                  "KeyPackage::try_from must copy identifier and signing share from the share, take verifying share "
                  "and key from its verification and record the commitment length as threshold", tf.loc)
        ctx.check(not narrow, "PROV-width", tf.key, "recorded-threshold-not-truncated",
                  "the recorded threshold is the commitment length after a narrowing cast (%s): a commitment of "
                  "length t+65536 is recorded as threshold t" % "; ".join(narrow), tf.loc)

    sv = ctx.anchor(CORE + "keys::SecretShare::<C>::verify")
    if sv:
        v = FnView.get(P, sv)
        lhs = lambda t: gen_times(t, lambda s: mentions(s, fld(arg(1), "signing_share")))
        rhs = lambda t: is_call(t, name="evaluate_vss") and fld(arg(1), "identifier")(t[2][0]) and \
            fld(arg(1), "commitment")(t[2][1])
        refusal(ctx, sv, "SEP", "G16:G*s==evaluate_vss(id,commitment)", [("eq", cmp_fact("eq", lhs, rhs, False))],
                ok_sinks(sv))
        oks = ok_values(sv, v)
        good = len(oks) == 1 and oks[0][0] == "agg" and oks[0][1] == "tuple"
        if good:
            a0 = unwrap_newtypes(oks[0][4][0][1])
            a1 = oks[0][4][1][1]
            good = rhs(a0) and a1[0] == "ok" and is_call(a1[1], name="verifying_key") and \
                fld(arg(1), "commitment")(a1[1][2][0])
        ctx.check(good, "PROV", sv.key, "returns-checked-values",
                  "SecretShare::verify must return (the evaluated commitment it compared, the commitment's constant "
                  "term)", sv.loc)
    ev = ctx.anchor(CORE + "keys::evaluate_vss")
    if ev:
        inv = {k: n for k, n in adaptor_inventory(ev).items() if k not in LOOKUPS}
        ctx.check(not inv, "RED", ev.key, "fold-over-every-coefficient",
                  "evaluate_vss must run over every coefficient commitment with no element-dropping adaptor (found %s)" % inv, ev.loc)
    arithmetic_kernels(ctx)
    # any t shares reconstruct: the count refusal of reconstruct is exactly `len < min` (not stricter)
    from .c03 import reconstruct_refusals
    reconstruct_refusals(ctx)
    default_identifier_range(ctx)
    reconstruct_kernel(ctx)
    ep = ctx.anchor(CORE + "keys::evaluate_polynomial")
    if ep:
        v = FnView.get(P, ep)
        red, c0 = horner_parts(P, ep, v)
        sv = seq_view(red["source"]) if red else None
        reductions(ctx, ep.key, adaptors=(sv["adaptors"] if sv else {"skip": 1, "rev": 1}), min_loops=0)
        good = bool(sv) and sv["base"] == ("arg", 2) and sv["drop_front"] == 1 and sv["drop_back"] == 0 and sv["reversed"] \
            and first_of(arg(2))(c0) and not red["skippable"] and not red["early_exit"]
        ctx.check(good, "RED", ep.key, "skip(1)+first",
                  "evaluate_polynomial (Horner) must run over coefficients[1..] from the highest down and add coefficients[0] "
                  "after it (found %s)" % ({k: (fmt(x) if isinstance(x, tuple) else x) for k, x in sv.items()} if sv else None), ep.loc)


def reconstruct_kernel(ctx):
    """any t shares reconstruct the key: reconstruct returns SigningKey{ sum over EVERY given package of
    lambda_i(0; identifiers of all given packages) * s_i }, from zero, with no package skipped (loop or fold form)."""
    P = ctx.prog
    f = ctx.anchor(CORE + "keys::reconstruct")
    if not f:
        return
    v = FnView.get(P, f)
    oks = ok_values(f, v)
    good = len(oks) == 1
    det = ""
    if good:
        S = unwrap_newtypes(get_field(oks[0], "scalar")) if oks[0][0] == "agg" else oks[0]
        r = reduction_of(P, f, v, S)
        det = fmt(S)[:200]
        good = r is not None and r["source"] == ("arg", 1) and len(r["init"]) == 1 and is_call(r["init"][0], name="zero") and \
            len(r["steps"]) == 1 and not r["after"] and not r["skippable"] and not r["early_exit"]
        if good:
            st = r["steps"][0]
            good = is_call(st, name="add") and len(st[2]) == 2 and st[2][0] == ACC and is_call(st[2][1], name="mul") and len(st[2][1][2]) == 2
            if good:
                a, b = st[2][1][2]
                all_ids = dedup_of(P, f, v, arg(1))
                lam = lambda t: t[0] == "ok" and is_call(t[1], name="compute_lagrange_coefficient") and all_ids(t[1][2][0]) and \
                    t[1][2][1][0] == "agg" and t[1][2][1][3] == "None" and is_field(strip_newtype_fields(t[1][2][2]), "KeyPackage", "identifier") and \
                    strip_newtype_fields(t[1][2][2])[1] == ITEM
                shr = lambda t: is_field(strip_newtype_fields(t), "KeyPackage", "signing_share") and strip_newtype_fields(t)[1] == ITEM
                good = (lam(a) and shr(b)) or (lam(b) and shr(a))
                # the identifier set handed to the coefficient holds the packages' identifiers (one per package)
                if good:
                    ids = (a if lam(a) else b)[1][2][0]
                    comps = map_components(P, f, v, ids) if ids[0] == "mut" else None
                    proj = None
                    if is_call(ids, name="collect") and ids[2]:
                        m = mapping_of(P, f, v, ids[2][0])
                        proj = m["val"] if m and m["key"] is None else None
                    elif comps and len(comps) == 1 and comps[0][0] == "each":
                        proj = comps[0][3]
                    good = proj is not None and is_field(strip_newtype_fields(proj), "KeyPackage", "identifier") and strip_newtype_fields(proj)[1] == ITEM
    ctx.check(good, "AGREE", f.key, "secret==sum(lambda_i(0; all ids)*s_i)",
              "reconstruct must return the sum, over every given key package, of its Lagrange coefficient at 0 (over the identifiers of "
              "all given packages) times its signing share: %s" % det, f.loc)


def horner_parts(P, ep, v):
    """(reduction, constant term) of evaluate_polynomial: value = reduce(..) + c0, as a loop or as a fold"""
    from .c01 import total_of
    rt = v.cx.local(0)
    red, extra = total_of(P, ep, v, rt)
    if red is None:
        return None, None
    return red, extra


def arithmetic_kernels(ctx):
    """per-step forms, the code being its own oracle: Horner step value' = (value + c) * x, final value + c_0;
    commitment evaluation step (pow', sum') = (x * pow, sum + phi_k * pow); together they make
    G * f(x) == sum_k (G*a_k) x^k term by term (the identity SecretShare::verify relies on)."""
    from .. import algebra
    from ..algebra import Alg, Unanalysable, show
    P = ctx.prog
    sym, pm, pa = algebra.sym, algebra.pmul, algebra.padd
    ep = ctx.anchor(CORE + "keys::evaluate_polynomial")
    if ep:
        v = FnView.get(P, ep)
        red, c0 = horner_parts(P, ep, v)
        good = False
        det = ""
        if red:
            leaves = [(lambda t: t == ACC, ("scal", "v")), (lambda t: t == ITEM, ("scal", "c")),
                      (lambda t: strip_newtype_fields(t) == ("arg", 1) and (t != ("arg", 1) or "Scalar" in ep.j["inputs"][0] and "Identifier" not in ep.j["inputs"][0]), ("scal", "x")),
                      (first_of(arg(2)), ("scal", "c0"))]
            al = Alg(leaves)
            try:
                step = al.val(composed_step(red["steps"]))[1]
                init = [al.val(t)[1] for t in red["init"]]
                last = al.val(c0)[1]
                good = step == pm(pa(sym("v"), sym("c")), sym("x")) and init == [{}] and last == sym("c0")
                det = "step %s, init %s, then + %s" % (show(("scal", step)), [show(("scal", x)) for x in init], show(("scal", last)))
            except Unanalysable as e:
                det = str(e)
        ctx.check(good, "AGREE", ep.key, "Horner:value=(value+c_k)*x;+c_0",
                  "evaluate_polynomial is not Horner's rule over coefficients[1..] reversed plus coefficients[0]: %s" % det, ep.loc)
    ev = ctx.anchor(CORE + "keys::evaluate_vss")
    if ev:
        from ..paths import state_iteration, Unbounded
        vv = FnView.get(P, ev)
        st = None
        det = ""
        try:
            st = state_iteration(P, ev, vv, vv.cx.local(0))
        except Unbounded as e:
            det = str(e)
        leaves = [(lambda x: strip_newtype_fields(x) == ("arg", 1) and x != ("arg", 1), ("scal", "x")),
                  (lambda x: x == ("st", "a0"), ("scal", "pw")), (lambda x: x == ("st", "r"), ("elem", "S")),
                  (lambda x: strip_newtype_fields(x) == ITEM and x != ITEM, ("elem", "phi"))]
        good = st is not None and len(st["cases"]) == 1 and set(st["init"]) == {"r", "a0"} and not st["early_exit"]
        if good:
            try:
                al = Alg(leaves)
                vals = st["cases"][0]["values"]
                p2, s2 = al.val(vals["a0"]), al.val(vals["r"])
                good = p2 == ("scal", pm(sym("x"), sym("pw"))) and s2 == ("elem", {"S": algebra.P(1), "phi": sym("pw")})
                det = "pow' = %s, sum' = %s" % (show(p2), show(s2))
            except Unanalysable as e:
                good = False
                det = str(e)
        ctx.check(good, "AGREE", ev.key, "(pow',sum')=(x*pow, sum+phi_k*pow)",
                  "the commitment-evaluation step must be (x*pow, sum + phi_k*pow), unconditionally for every coefficient: %s" % det, ev.loc)
        good = st is not None and fld(arg(2), "0")(st["source"]) and is_call(st["init"].get("a0", ("x",)), name="one") and \
            is_call(st["init"].get("r", ("x",)), name="identity")
        ctx.check(good, "AGREE", ev.key, "fold-from-(1,identity)-returns-sum",
                  "evaluate_vss must run over commitment.0 from (1, identity) and return the sum component", ev.loc)
