"""C20 — secret material is wiped on drop and on request and never shown in debug output (engine G)."""
from ..lib import *
from ..terms import TermCx, fmt, short
from ..mir import type_head, callee_of
from .. import facts, mir

CORE = "frost_core::"
# root secret types (a value of this type IS a secret scalar) and raw secret fields
ROOTS = {CORE + "keys::SigningShare", CORE + "round1::Nonce", CORE + "signing_key::SigningKey"}
RAW_SECRET_FIELDS = {(CORE + "keys::dkg::round1::SecretPackage", "coefficients"),
                     (CORE + "keys::dkg::round2::SecretPackage", "secret_share"),
                     (CORE + "signing_key::SigningKey", "scalar"),
                     (CORE + "keys::SigningShare", "0"), (CORE + "round1::Nonce", "0")}
# the secret-bearing types named by the property: each must exist and (if not Copy) wipe on drop
NAMED_OWNERS = [CORE + "signing_key::SigningKey", CORE + "keys::SecretShare", CORE + "keys::KeyPackage",
                CORE + "round1::SigningNonces", CORE + "keys::dkg::round1::SecretPackage",
                CORE + "keys::dkg::round2::SecretPackage", CORE + "keys::dkg::round2::Package"]


def secret_fields(prog):
    """{adt path: [field names]} for workspace structs: fields whose type is a root secret type, plus the raw table"""
    out = {}
    for path, a in prog.adts.items():
        if not a["crate"].startswith("frost") or a["kind"] != "Struct":
            continue
        for fl in a["variants"][0]["fields"]:
            if (path, fl["name"]) in RAW_SECRET_FIELDS or (fl.get("adt") in ROOTS):
                out.setdefault(path, []).append(fl["name"])
    return out


def is_zero_term(t):
    t = unwrap_newtypes(t)
    return is_call(t, name="zero") or (t[0] == "const" and "ZERO" in str(t[2]))


def wiped_fields(prog, f, adt, depth=0):
    """names of self's fields that body f wipes (zeroize call on the field, or assignment of zero); '*' = all"""
    v = FnView.get(prog, f)
    out = set()
    for (bb, t, ci) in f.calls():
        if not ci or ci.get("name") not in ("zeroize", "zeroize_or_on_drop"):
            continue
        a = v.call_args(bb)
        if not a:
            continue
        x = a[0]
        if x == ("arg", 1):
            # delegates to the type's own Zeroize
            zf = zeroize_impl(prog, adt)
            if zf is not None and zf.key != f.key and depth < 2:
                out |= wiped_fields(prog, zf, adt, depth + 1)
            continue
        if x[0] == "field" and x[1] == ("arg", 1) and x[2] == adt:
            out.add(x[3])
    nb = f.normal_blocks()
    for b in f.blocks:
        if b.i not in nb:
            continue
        for s in b.stmts:
            if s["k"] != "assign" or s["place"]["l"] != 1:
                continue
            p = [e for e in s["place"]["p"] if e != "*"]
            val = v.cx.rvalue(s["rv"], (f.key, b.i, 0))
            if not p and is_zero_term(val):
                out.add("*")
            elif len(p) == 1 and isinstance(p[0], dict) and "n" in p[0] and is_zero_term(val):
                out.add(p[0]["n"])
    return out


def impl_fn(prog, adt, trait_last, method):
    for im in prog.impls:
        if im.get("self_adt") == adt and (im.get("trait") or "").rsplit("::", 1)[-1] == trait_last:
            for it in im["items"]:
                if it["name"] == method:
                    f = prog.fns.get(it["key"])
                    if f is not None and f.has_body:
                        return f
    return None


def zeroize_impl(prog, adt):
    return impl_fn(prog, adt, "Zeroize", "zeroize")


def has_impl(prog, adt, trait_last):
    return any(im.get("self_adt") == adt and (im.get("trait") or "").rsplit("::", 1)[-1] == trait_last for im in prog.impls)


def debug_reveals(prog, f, adt, sf):
    """secret fields of `adt` that Debug body f exposes: any use of the field other than handing the whole field to a
    formatter as `&dyn Debug` of a root type (whose own Debug is checked separately)"""
    v = FnView.get(prog, f)
    rev = []
    fields = sf.get(adt, [])
    a = prog.adts[adt]
    ftypes = {fl["name"]: fl.get("adt") for fl in a["variants"][0]["fields"]}
    for (bb, t, ci) in f.calls():
        args = v.call_args(bb)
        for x in args:
            for s in subterms(x):
                if s[0] == "field" and base_of(s[1]) == ("arg", 1) and s[2] == adt and s[3] in fields:
                    whole = (x == s) or (x[0] == "agg" and any(val == s for _, val in x[4]))
                    fmt_sink = ci is not None and ci["path"].startswith("core::fmt::")
                    if whole and fmt_sink and ftypes.get(s[3]) in ROOTS and (adt, s[3]) not in RAW_SECRET_FIELDS:
                        continue  # delegated to the root type's Debug
                    rev.append((s[3], ci["path"] if ci else "?", bb))
    return rev


def run(ctx):
    ctx.decided = ("for every workspace struct with a secret field (fields of type SigningShare / Nonce / SigningKey, plus "
                   "the raw scalar fields of the two key-generation secret packages and of the root newtypes): its "
                   "Zeroize body (derived or manual, read from MIR) wipes every secret field; every non-Copy owner has a "
                   "Drop body that wipes every secret field and the field types implement Zeroize; no Debug body uses a "
                   "secret field except by delegating the whole field to a root type's Debug, and the root types' Debug "
                   "bodies read nothing of self.")
    ctx.undecided = ("SigningShare and Nonce are Copy and cannot own drop glue (documented in the book; their owners are "
                     "checked); plain zero stores may legally be elided by an optimiser; copies left behind by moves.")
    ctx.floor = 30
    P = ctx.prog
    sf = secret_fields(P)
    ctx.extra["secret_fields"] = {k: v for k, v in sf.items()}
    for o in NAMED_OWNERS:
        ctx.check(o in sf, "TAB", o, "has-secret-field", "secret-bearing type %s (named by the property) not found or has no "
                  "secret field any more" % short(o))
    for adt, fields in sorted(sf.items()):
        a = P.adts[adt]
        # ---- Zeroize (where offered)
        zf = zeroize_impl(P, adt)
        if zf is not None:
            w = wiped_fields(P, zf, adt)
            for fl in fields:
                ctx.check(fl in w or "*" in w, "ZEROIZE", adt, "zeroize-wipes:" + fl,
                          "%s::zeroize leaves secret field `%s` untouched (skipped or not assigned zero)" % (short(adt), fl),
                          zf.loc, {"wiped": sorted(w)})
        elif has_impl(P, adt, "DefaultIsZeroes"):
            df = impl_fn(P, adt, "Default", "default")
            good = df is not None and is_zero_term(FnView.get(P, df).cx.local(0))
            ctx.check(good, "ZEROIZE", adt, "default-is-zero",
                      "%s is DefaultIsZeroes but its Default is not the zero scalar" % short(adt), df.loc if df else None)
        elif adt in NAMED_OWNERS and adt != CORE + "signing_key::SigningKey":
            ctx.violation("ZEROIZE", adt, "zeroize-missing", "secret-bearing type %s no longer offers Zeroize" % short(adt))
        # ---- Drop
        if a["copy"]:
            ctx.note("DROP", adt, "Copy type: cannot own drop glue; its owners are checked")
        else:
            drop = impl_fn(P, adt, "Drop", "drop")
            if drop is None:
                ctx.violation("DROP", adt, "drop-missing",
                              "%s holds secret field(s) %s but has no Drop implementation: dropping it leaves the secret "
                              "scalars in memory" % (short(adt), fields), "%s:%d" % (a["span"]["file"], a["span"]["line"]))
            else:
                w = wiped_fields(P, drop, adt)
                for fl in fields:
                    ctx.check(fl in w or "*" in w, "DROP", adt, "drop-wipes:" + fl,
                              "dropping %s does not wipe secret field `%s`" % (short(adt), fl), drop.loc, {"wiped": sorted(w)})
        # field types are wipeable: root types / wrapper implement Zeroize (or DefaultIsZeroes)
        for fl in a["variants"][0]["fields"]:
            if fl["name"] in fields and fl.get("adt") and fl["adt"].startswith("frost"):
                ok = has_impl(P, fl["adt"], "Zeroize") or has_impl(P, fl["adt"], "DefaultIsZeroes")
                if fl["adt"] == CORE + "signing_key::SigningKey":
                    ok = ok or has_impl(P, fl["adt"], "ZeroizeOnDrop")
                ctx.check(ok, "ZEROIZE", adt, "field-type-wipeable:" + fl["name"],
                          "field %s.%s has type %s which implements neither Zeroize nor DefaultIsZeroes: "
                          "zeroize_or_on_drop cannot wipe it" % (short(adt), fl["name"], short(fl["adt"])))
        # ---- Debug
        dbg = impl_fn(P, adt, "Debug", "fmt")
        if dbg is not None:
            rev = debug_reveals(P, dbg, adt, sf)
            ctx.check(not rev, "DEBUG", adt, "debug-hides-secrets",
                      "Debug for %s formats secret field(s) %s" % (short(adt), sorted({r[0] for r in rev})),
                      loc_of(dbg, rev[0][2]) if rev else dbg.loc)
        else:
            ctx.ok("DEBUG", adt, "no-Debug-impl")
    # the raw scalar wrapper must not be Debug (otherwise derived Debug on a secret struct would print it)
    ctx.check(not has_impl(P, CORE + "serialization::SerializableScalar", "Debug"), "DEBUG",
              CORE + "serialization::SerializableScalar", "not-Debug",
              "SerializableScalar implements Debug: every derived Debug on a struct holding a raw secret scalar would print it")
    # Debug impls of any workspace type must not read secret fields of *other* values either (e.g. through getters)
    n = 0
    for im in P.impls:
        if (im.get("trait") or "").endswith("::Debug") and im["crate"].startswith("frost") and im.get("self_adt") not in sf:
            n += 1
    ctx.extra["debug_impls_scanned"] = n + sum(1 for a in sf if impl_fn(P, a, "Debug", "fmt"))
    # positive control
    try:
        FP = mir.Program(facts.fixture_facts())
        fsf = {"fixtures::Secret": ["0"]}
        d = impl_fn(FP, "fixtures::Secret", "Debug", "fmt")
        ctx.check(d is not None and bool(debug_reveals(FP, d, "fixtures::Secret", fsf)), "DEBUG", "fixtures", "positive-control",
                  "the Debug rule did not fire on the positive control (a Debug impl printing a secret field)")
    except facts.FactError as e:
        ctx.violation("DEBUG", "fixtures", "positive-control", "fixture crate could not be analysed: %s" % e)
