"""C07 — honest DKG ends with one group key and matching shares (narrow claim: wiring of part3 and its helpers)."""
from ..lib import *
from ..terms import TermCx, fmt, short
from .c04 import next_item, tfield

CORE = "frost_core::"
DKG = CORE + "keys::dkg::"


def part3_wiring(ctx):
    P = ctx.prog
    p3 = ctx.anchor(DKG + "part3")
    if not p3:
        return
    v = FnView.get(P, p3)
    tails = [(b, t) for (b, k, t) in ret_writes(p3) if k == "call"]
    good = len(tails) == 1 and callee_of(tails[0][1]) and callee_of(tails[0][1]).get("name") == "post_dkg"
    ctx.check(good, "PROV", p3.key, "result==post_dkg(key package, public key package)",
              "part3 must return the ciphersuite's post_dkg of the packages it built", p3.loc)
    if not good:
        return
    a = v.call_args(tails[0][0])
    kp, pkp = a[0], a[1]
    key_package_consistent(ctx, p3, kp)
    S = unwrap_newtypes(get_field(kp, "signing_share"))
    from .c01 import total_of
    red, own = total_of(P, p3, v, S)
    good = red is not None and red["source"] is not None and strip_iter_calls(red["source"]) == ("arg", 3) and \
        len(red["init"]) == 1 and is_call(red["init"][0], name="zero") and len(red["steps"]) == 1 and not red["skippable"] and \
        not red["early_exit"] and is_call(red["steps"][0], name="add") and red["steps"][0][2][0] == ACC and \
        fld(lambda t: t == ("field", ITEM, None, "1"), "signing_share")(strip_newtype_fields(red["steps"][0][2][1])) and \
        fld(arg(1), "secret_share")(strip_newtype_fields(own))
    ctx.check(good, "PROV", p3.key, "share==sum(received)+own",
              "the signing share must be the sum of every received round-two share plus the participant's own share: %s"
              % fmt(S)[:200], p3.loc)
    pk_src = lambda t: t[0] == "ok" and is_call(t[1], name="from_dkg_commitments")
    ctx.check(pk_src(pkp), "PROV", p3.key, "public-package==from_dkg_commitments", "public key package source: %s" % fmt(pkp)[:100], p3.loc)
    ctx.check(fld(pk_src, "verifying_key")(get_field(kp, "verifying_key")), "COPY", p3.key, "key-package-group-key==public-package-group-key",
              "the key package's group key must be a copy of the public key package's", p3.loc)
    ctx.check(fld(arg(1), "identifier")(get_field(kp, "identifier")) and fld(arg(1), "min_signers")(get_field(kp, "min_signers")), "COPY", p3.key,
              "identifier-and-threshold-from-own-secret-package", "identifier / threshold of the key package must come from the participant's own secret package", p3.loc)
    if pk_src(pkp):
        comps = map_components(P, p3, v, pkp[1][2][0])
        each = [c for c in comps if c[0] == "each"]
        one = [c for c in comps if c[0] == "one"]
        good = len(comps) == 2 and len(each) == 1 and len(one) == 1 and each[0][1] == ("arg", 2) and \
            each[0][2] == ("field", ITEM, None, "0") and is_field(each[0][3], "Package", "commitment") and \
            each[0][3][1] == ("field", ITEM, None, "1") and fld(arg(1), "identifier")(one[0][1]) and fld(arg(1), "commitment")(one[0][2])
        ctx.check(good and {k for k in adaptor_inventory(p3) if k not in LOOKUPS} == set(), "PROV", p3.key,
                  "commitments==all-round1+own",
                  "the public key package must be derived from every round-one commitment (filed under its sender) plus the "
                  "participant's own commitment, and from nothing else", p3.loc)


def helpers(ctx):
    P = ctx.prog
    f = ctx.anchor(CORE + "keys::PublicKeyPackage::<C>::from_dkg_commitments")
    if f:
        v = FnView.get(P, f)
        tails = [v.cx.call(t, (f.key, b)) for (b, k, t) in ret_writes(f) if k == "call"]
        good = len(tails) == 1 and is_call(tails[0], name="from_commitment")
        if good:
            ids, comm = tails[0][2]
            good = (is_call(ids, name="collect") and is_call(ids[2][0], name="keys") and ids[2][0][2][0] == ("arg", 1)
                    and comm[0] == "ok" and is_call(comm[1], name="sum_commitments") and is_call(comm[1][2][0], name="collect")
                    and is_call(comm[1][2][0][2][0], name="values") and comm[1][2][0][2][0][2][0] == ("arg", 1))
        ctx.check(good and {k for k in adaptor_inventory(f) if k not in LOOKUPS} == set(), "PROV", f.key,
                  "from_commitment(all keys, sum of all values)",
                  "from_dkg_commitments must use every identifier and the sum of every commitment", f.loc)
    f = ctx.anchor(CORE + "keys::PublicKeyPackage::<C>::from_commitment")
    if f:
        v = FnView.get(P, f)
        oks = ok_values(f, v)
        good = len(oks) == 1
        if good:
            vs = get_field(oks[0], "verifying_shares")
            good = is_call(vs, name="collect") and is_call(vs[2][0], name="map") and is_call(vs[2][0][2][0], name="iter") and vs[2][0][2][0][2][0] == ("arg", 1)
            clo = vs[2][0][2][1] if good else None
            if good and clo[0] == "closure":
                cf = P.fns.get(clo[1])
                ct = TermCx(P, cf).local(0) if cf else None
                good = ct is not None and ct[0] == "agg" and ct[4][0][1] == ("arg", 2) and \
                    mentions(ct[4][1][1], lambda s: is_call(s, name="evaluate_vss") and s[2][0] == ("arg", 2) and s[2][1] == ("field", ("arg", 1), None, "0")) and clo[2] == (("arg", 2),)
            vk = get_field(oks[0], "verifying_key")
            good = good and vk[0] == "ok" and mentions(vk, arg(2))
            w = Width()
            ms = get_field(oks[0], "min_signers")
            good = good and ms[0] == "agg" and ms[3] == "Some" and w.of(length(fld(arg(2), "0")))(ms[4][0][1]) and not w.narrow
        ctx.check(good and {k for k in adaptor_inventory(f) if k not in LOOKUPS} == set(), "PROV", f.key,
                  "Y_i==evaluate_vss(i, commitment)-for-every-identifier",
                  "every identifier's verifying share must be the summed commitment evaluated at that identifier; group key = "
                  "its constant term; threshold = its length (not truncated)", f.loc)
    f = ctx.anchor(CORE + "keys::sum_commitments")
    if f:
        lr = reductions(ctx, f.key, adaptors={}, min_loops=2)
        v = FnView.get(P, f)
        if lr and len(lr) >= 2:
            outer = [lp for lp in lr if lp["iter_term"] == ("iter", ("arg", 1))]
            ctx.check(len(outer) == 1, "RED", f.key, "outer-loop-over-every-commitment", "sum_commitments must iterate all commitments", f.loc)
            inner = [lp for lp in lr if lp["iter_term"] is not None and mentions(lp["iter_term"], lambda s: is_call(s, name="iter_mut"))]
            ctx.check(len(inner) == 1 and mentions(inner[0]["iter_term"], lambda s: is_call(s, name="enumerate")), "RED", f.key,
                      "inner-loop-over-every-coefficient-index", "sum_commitments must update every coefficient slot", f.loc)
            # missing coefficient -> Err (length mismatch is refused, not truncated)
            g = [e for (e, fa) in v.facts if fa[0] == "succ" and fa[1][0] == "ok_or" and is_call(fa[1][1], name="get") and not fa[2]]
            ctx.check(bool(g) and all(fail_is_error(f, e) for e in g), "SEP", f.key, "short-commitment-refused",
                      "a commitment with fewer coefficients than the first must be refused, not truncated", f.loc)
    # Taproot post-processing + default
    f = None if ctx.core_only else ctx.anchor("<frost_secp256k1_tr::Secp256K1Sha256TR as frost_core::traits::Ciphersuite>::post_dkg")
    if f:
        v = FnView.get(P, f)
        oks = ok_values(f, v)
        none = ("agg", "adt", "core::option::Option", "None", ())
        good = len(oks) == 1 and oks[0][0] == "agg" and all(
            is_call(x, name="tweak") and x[2][0] == ("arg", i + 1) and x[2][1] == none for i, (_, x) in enumerate(oks[0][4]))
        ctx.check(good, "AGREE", f.key, "both-packages-tweaked-with-None",
                  "Taproot post_dkg must apply the key-path-only tweak (None) to both the key package and the public key package", f.loc)
    f = ctx.anchor(CORE + "traits::Ciphersuite::post_dkg")
    if f:
        v = FnView.get(P, f)
        oks = ok_values(f, v)
        ctx.check(len(oks) == 1 and oks[0] == ("agg", "tuple", None, None, (("0", ("arg", 1)), ("1", ("arg", 2)))), "AGREE", f.key,
                  "default-is-identity", "the default post_dkg must return both packages unchanged", f.loc)


def run(ctx):
    ctx.decided = ("wiring of dkg::part3 and its helpers: the signing share is the sum of every received share plus the own "
                   "share, verifying share = G * signing share, the key package's group key is a copy of the public "
                   "package's, the public package is derived from all round-one commitments plus the own one (every "
                   "identifier, every commitment, every coefficient index; short commitments refused), threshold from the "
                   "commitment length; Taproot post-processing tweaks both packages with None.")
    ctx.undecided = ("most of the property: equality of packages across participants, shares lying on the summed "
                     "polynomial, signing afterwards (agreement between runs is not a structural fact).")
    ctx.floor = 13 if ctx.core_only else 14
    refusal_inventory(ctx)
    wrappers(ctx, ['keys::dkg::part1', 'keys::dkg::part2', 'keys::dkg::part3'])
    part3_wiring(ctx)
    helpers(ctx)
    # every valid (n, t) and identifier set: the parameter refusals are exactly the specified ones, and the share /
    # commitment evaluation the verifying shares rely on is the per-step identity decided for C06
    from .c06 import check_validate, arithmetic_kernels
    check_validate(ctx)
    arithmetic_kernels(ctx)
