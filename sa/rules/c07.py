"""C07 — honest DKG ends with one group key and matching shares (narrow claim: wiring of part3 and its helpers)."""
from ..lib import *
from ..terms import TermCx, fmt, short
from .c04 import next_item, tfield

CORE = "frost_core::"
DKG = CORE + "keys::dkg::"


def part3_wiring(ctx):
    P = ctx.prog
    p3 = ctx.anchor(DKG + "part3")
    if not p3:
        return
    v = FnView.get(P, p3)
    tails = [(b, t) for (b, k, t) in ret_writes(p3) if k == "call"]
    good = len(tails) == 1 and callee_of(tails[0][1]) and callee_of(tails[0][1]).get("name") == "post_dkg"
    ctx.check(good, "PROV", p3.key, "result==post_dkg(key package, public key package)",
              "part3 must return the ciphersuite's post_dkg of the packages it built", p3.loc)
    if not good:
        return
    a = v.call_args(tails[0][0])
    kp, pkp = a[0], a[1]
    key_package_consistent(ctx, p3, kp)
    S = unwrap_newtypes(get_field(kp, "signing_share"))
    from .c01 import total_of
    red, own = total_of(P, p3, v, S)
    good = red is not None and red["source"] is not None and strip_iter_calls(red["source"]) == ("arg", 3) and \
        len(red["init"]) == 1 and is_call(red["init"][0], name="zero") and len(red["steps"]) == 1 and not red["skippable"] and \
        not red["early_exit"] and is_call(red["steps"][0], name="add") and red["steps"][0][2][0] == ACC and \
        fld(lambda t: t == ("field", ITEM, None, "1"), "signing_share")(strip_newtype_fields(look_through(P, red["steps"][0][2][1]))) and \
        fld(arg(1), "secret_share")(strip_newtype_fields(own))
    ctx.check(good, "PROV", p3.key, "share==sum(received)+own",
              "the signing share must be the sum of every received round-two share plus the participant's own share: %s"
              % fmt(S)[:200], p3.loc)
    pk_src = lambda t: t[0] == "ok" and is_call(t[1], name="from_dkg_commitments")
    ctx.check(pk_src(pkp), "PROV", p3.key, "public-package==from_dkg_commitments", "public key package source: %s" % fmt(pkp)[:100], p3.loc)
    ctx.check(fld(pk_src, "verifying_key")(get_field(kp, "verifying_key")), "COPY", p3.key, "key-package-group-key==public-package-group-key",
              "the key package's group key must be a copy of the public key package's", p3.loc)
    ctx.check(fld(arg(1), "identifier")(get_field(kp, "identifier")) and fld(arg(1), "min_signers")(get_field(kp, "min_signers")), "COPY", p3.key,
              "identifier-and-threshold-from-own-secret-package", "identifier / threshold of the key package must come from the participant's own secret package", p3.loc)
    if pk_src(pkp):
        comps = map_components(P, p3, v, pkp[1][2][0])
        each = [c for c in comps if c[0] == "each"]
        one = [c for c in comps if c[0] == "one"]
        good = len(comps) == 2 and len(each) == 1 and len(one) == 1 and each[0][1] == ("arg", 2) and \
            each[0][2] == ("field", ITEM, None, "0") and is_field(each[0][3], "Package", "commitment") and \
            each[0][3][1] == ("field", ITEM, None, "1") and fld(arg(1), "identifier")(one[0][1]) and fld(arg(1), "commitment")(one[0][2])
        ctx.check(good and {k for k in adaptor_inventory(p3) if k not in LOOKUPS} == set(), "PROV", p3.key,
                  "commitments==all-round1+own",
                  "the public key package must be derived from every round-one commitment (filed under its sender) plus the "
                  "participant's own commitment, and from nothing else", p3.loc)


ITEM2 = ("item2",)


def vector_sum_kernel(ctx, f):
    """sum_commitments: result[i] = sum over EVERY given commitment c of c.0[i], for every index i of a vector that starts as
    [identity; len(first commitment)]; a commitment without an i-th coefficient is refused, not skipped.  Decided on the
    elementwise step new[i] = old[i] + c.0[i], read either from the in-place form (outer loop over the commitments, inner loop over
    `total.iter_mut().enumerate()` writing through the element reference) or from the functional form
    (`try_fold(zero, |total, c| total.iter().enumerate().map(|(i, x)| ..).collect::<Result<Vec<_>, _>>())`)."""
    from ..paths import loop_transfer, Unbounded
    P = ctx.prog
    v = FnView.get(P, f)
    oks = ok_values(f, v)
    res = unwrap_newtypes(oks[0]) if len(oks) == 1 else None
    E = None            # elementwise step over ITEM (the commitment) and ITEM2 = (index, old element)
    init = None
    src_ok = False
    why = "result not recognised"
    try:
        r = reduction_of(P, f, v, res) if res is not None else None
        if r is not None and r["form"] in ("fold", "try_fold") and len(r["steps"]) == 1:
            st = r["steps"][0]
            while st[0] == "ok":
                st = st[1]
            if is_call(st, name="collect") and st[2] and is_call(st[2][0], name="map") and len(st[2][0][2]) == 2:
                inner_src, clo2 = st[2][0][2]
                if is_call(inner_src, name="enumerate") and strip_iter_calls(inner_src[2][0]) == ACC:
                    body = closure_body(P, clo2, {2: ITEM2})
                    # the element's Ok payload: `Ok(x)` next to `?` exits, or `lookup.ok_or(e).map(|t| x)`
                    oks_ = list(dict.fromkeys(ok_of(P, body))) if body is not None else []
                    if len(oks_) == 1 and not (oks_[0][0] == "ok" and oks_[0][1] == body):
                        E, init, src_ok = oks_[0], r["init"][0], r["source"] == ("arg", 1)
                        why = ""
        if E is None and r is not None and r["form"] in ("fold", "try_fold") and len(r["steps"]) == 1 and res is not None:
            # functional outer traversal, in-place inner one: the closure updates its accumulator through
            # `acc.iter_mut().zip(&c.0[..len])` (a commitment shorter than `len` refused by the checked slice)
            fo = res
            while fo[0] == "ok":
                fo = fo[1]
            clo = fo[2][2]
            cf = P.fns.get(clo[1]) if clo[0] == "closure" else None
            if cf is not None and cf.has_body:
                sub = {1: ("agg", "tuple", None, None, tuple((str(n), val) for n, val in enumerate(clo[2]))), 2: ACC, 3: ITEM}
                cv = FnView(P, cf, sub, (("clo", clo[1]),))
                lps = [lp for lp in loop_report(P, cf, cv) if lp["iter_term"] is not None and is_call(strip_iter_calls(lp["iter_term"]), name="zip")]
                if len(lps) == 1 and not any(c == "break" for _, c in lps[0]["exits"]):
                    z = strip_iter_calls(lps[0]["iter_term"])
                    left, right = z[2][0], strip_iter_calls(z[2][1])
                    init_len = fo[2][1]
                    # left: the accumulator's elements; right: the first `len(acc)` coefficients of this commitment, checked
                    lok = is_call(left, name="iter_mut") and mentions(left[2][0], lambda s_: s_ == ACC)
                    pref = right[1] if right[0] in ("some", "ok") else right
                    pref = pref[1] if pref[0] == "ok_or" else pref
                    rok = is_call(pref, name="get") and len(pref[2]) == 2 and pref[2][1][0] == "agg" and (pref[2][1][2] or "").endswith("RangeTo") and \
                        mentions(init_len, lambda s_: s_ == dict(pref[2][1][4]).get("end")) and \
                        (pref[2][0] == ITEM or strip_newtype_fields(pref[2][0]) == ITEM or (pref[2][0][0] == "field" and pref[2][0][3] == "0" and pref[2][0][1] == ITEM))
                    ii = lambda x: x[0] == "some" and is_call(x[1], name="next") and x[1][2] and is_call(strip_iter_calls(x[1][2][0]), name="zip")
                    steps = []
                    for p in loop_transfer(P, cf, cv, lps[0], set()):
                        if p["end"] != "back":
                            continue
                        ws = [(l, x) for l, x in p["deref_writes"].items() if subst(p["cx"].local(l), [(ii, ITEM2)]) == ("field", ITEM2, None, "0")]
                        steps.append(subst(ws[0][1], [(ii, ITEM2)]) if len(ws) == 1 else None)
                    if lok and rok and steps and all(x is not None and x == steps[0] for x in steps):
                        # normalise to the (index, old) / get(c, index) vocabulary of the other forms: pair = (old, other)
                        e_ = unwrap_newtypes(steps[0])
                        if is_call(e_, name="add") and len(e_[2]) == 2:
                            oldp = lambda t: strip_newtype_fields(t) == ("field", ITEM2, None, "0")
                            othp = lambda t: strip_newtype_fields(t) == ("field", ITEM2, None, "1")
                            if (oldp(e_[2][0]) and othp(e_[2][1])) or (oldp(e_[2][1]) and othp(e_[2][0])):
                                E = ("call", e_[1], (("field", ITEM2, None, "1"), ("some", ("call", "x::get", (ITEM, ("field", ITEM2, None, "0")), None, None))), e_[3], e_[4])
                                init, src_ok, why = r["init"][0], r["source"] == ("arg", 1), ""
        elif res is not None and res[0] == "mut":
            base = res[1]
            lps = loop_report(P, f)
            outer = [lp for lp in lps if lp["iter_term"] is not None and strip_iter_calls(lp["iter_term"]) == ("arg", 1)]
            inner = [lp for lp in lps if lp["iter_term"] is not None and is_call(strip_iter_calls(lp["iter_term"]), name="enumerate")
                     and is_call(strip_iter_calls(lp["iter_term"])[2][0], name="iter_mut")
                     and mentions(strip_iter_calls(lp["iter_term"])[2][0][2][0], lambda s_: s_ == base)]
            if len(outer) == 1 and len(inner) == 1 and inner[0]["body"] < outer[0]["body"] and \
                    not any(c == "break" for lp in (outer[0], inner[0]) for _, c in lp["exits"]):
                it_o, it_i = outer[0]["iter_term"], inner[0]["iter_term"]
                io = lambda x: x[0] == "some" and is_call(x[1], name="next") and x[1][2] and strip_iter_calls(x[1][2][0]) == ("arg", 1)
                ii = lambda x: x[0] == "some" and is_call(x[1], name="next") and x[1][2] and is_call(strip_iter_calls(x[1][2][0]), name="enumerate") \
                    and is_call(strip_iter_calls(x[1][2][0])[2][0], name="iter_mut")
                steps = []
                for p in loop_transfer(P, f, v, inner[0], set()):
                    if p["end"] != "back":
                        continue
                    ws = [(l, x) for l, x in p["deref_writes"].items() if subst(p["cx"].local(l), [(ii, ITEM2)]) == ("field", ITEM2, None, "1")]
                    steps.append(subst(ws[0][1], [(ii, ITEM2), (io, ITEM)]) if len(ws) == 1 else None)
                if steps and all(x is not None and x == steps[0] for x in steps):
                    E, init, src_ok = steps[0], base, True
                    why = ""
                else:
                    why = "an inner iteration can complete without updating its element"
    except Unbounded as e:
        why = str(e)
    good = E is not None and src_ok
    if good:
        e_ = unwrap_newtypes(E)
        old = lambda t: strip_newtype_fields(t) == ("field", ITEM2, None, "1")
        coeffs = lambda t: t == ITEM or (t[0] == "field" and t[3] == "0" and t[1] == ITEM) or strip_newtype_fields(t) == ITEM
        oth = lambda t: (lambda u: u[0] == "some" and is_call(u[1], name="get") and coeffs(u[1][2][0]) and u[1][2][1] == ("field", ITEM2, None, "0"))(strip_newtype_fields(t))
        good = is_call(e_, name="add") and len(e_[2]) == 2 and ((old(e_[2][0]) and oth(e_[2][1])) or (old(e_[2][1]) and oth(e_[2][0])))
        why = "elementwise step is %s" % fmt(e_)[:160]
    ctx.check(good, "AGREE", f.key, "sum[i]==sum_over_all_commitments(c[i])",
              "sum_commitments must add, for every index, the i-th coefficient of every given commitment to the i-th slot (a short "
              "commitment refused): %s" % why, f.loc)
    first_len = lambda t: (is_call(t, name="len") and len(t[2]) == 1 and
                           mentions(t[2][0], lambda s_: s_[0] == "some" and is_call(s_[1], name="first") and s_[1][2][0] == ("arg", 1)))
    if init is not None and is_call(init, name="collect") and init[2] and is_call(init[2][0], name="repeat_n") and len(init[2][0][2]) == 2:
        init = ("call", "x::from_elem", init[2][0][2], None, None)          # repeat_n(x, n).collect() is vec![x; n]
    good = init is not None and is_call(init, name="from_elem") and len(init[2]) == 2 and is_call(unwrap_newtypes(init[2][0]), name="identity") and first_len(init[2][1])
    ctx.check(good, "AGREE", f.key, "starts-from-[identity; len(first)]",
              "the running total must start as one identity element per coefficient of the first commitment", f.loc)


def helpers(ctx):
    P = ctx.prog
    f = ctx.anchor(CORE + "keys::PublicKeyPackage::<C>::from_dkg_commitments")
    if f:
        v = FnView.get(P, f)
        tails = [v.cx.call(t, (f.key, b)) for (b, k, t) in ret_writes(f) if k == "call"]
        good = len(tails) == 1 and is_call(tails[0], name="from_commitment")
        if good:
            ids, comm = tails[0][2]
            good = (is_call(ids, name="collect") and is_call(ids[2][0], name="keys") and ids[2][0][2][0] == ("arg", 1)
                    and comm[0] == "ok" and is_call(comm[1], name="sum_commitments") and is_call(comm[1][2][0], name="collect")
                    and is_call(comm[1][2][0][2][0], name="values") and comm[1][2][0][2][0][2][0] == ("arg", 1))
        ctx.check(good and {k for k in adaptor_inventory(f) if k not in LOOKUPS} == set(), "PROV", f.key,
                  "from_commitment(all keys, sum of all values)",
                  "from_dkg_commitments must use every identifier and the sum of every commitment", f.loc)
    f = ctx.anchor(CORE + "keys::PublicKeyPackage::<C>::from_commitment")
    if f:
        v = FnView.get(P, f)
        oks = ok_values(f, v)
        good = len(oks) == 1
        if good:
            vs = get_field(oks[0], "verifying_shares")
            good = is_call(vs, name="collect") and is_call(vs[2][0], name="map") and is_call(vs[2][0][2][0], name="iter") and vs[2][0][2][0][2][0] == ("arg", 1)
            clo = vs[2][0][2][1] if good else None
            if good and clo[0] == "closure":
                cf = P.fns.get(clo[1])
                ct = TermCx(P, cf).local(0) if cf else None
                good = ct is not None and ct[0] == "agg" and ct[4][0][1] == ("arg", 2) and \
                    mentions(ct[4][1][1], lambda s: is_call(s, name="evaluate_vss") and s[2][0] == ("arg", 2) and s[2][1] == ("field", ("arg", 1), None, "0")) and clo[2] == (("arg", 2),)
            vk = get_field(oks[0], "verifying_key")
            good = good and vk[0] == "ok" and mentions(vk, arg(2))
            w = Width()
            ms = get_field(oks[0], "min_signers")
            good = good and ms[0] == "agg" and ms[3] == "Some" and w.of(length(fld(arg(2), "0")))(ms[4][0][1]) and not w.narrow
        ctx.check(good and {k for k in adaptor_inventory(f) if k not in LOOKUPS} == set(), "PROV", f.key,
                  "Y_i==evaluate_vss(i, commitment)-for-every-identifier",
                  "every identifier's verifying share must be the summed commitment evaluated at that identifier; group key = "
                  "its constant term; threshold = its length (not truncated)", f.loc)
    f = ctx.anchor(CORE + "keys::sum_commitments")
    if f:
        reductions(ctx, f.key, adaptors={}, min_loops=0)
        vector_sum_kernel(ctx, f)
    # Taproot post-processing + default
    f = None if ctx.core_only else ctx.anchor("<frost_secp256k1_tr::Secp256K1Sha256TR as frost_core::traits::Ciphersuite>::post_dkg")
    if f:
        v = FnView.get(P, f)
        oks = ok_values(f, v)
        none = ("agg", "adt", "core::option::Option", "None", ())
        good = len(oks) == 1 and oks[0][0] == "agg" and all(
            is_call(x, name="tweak") and x[2][0] == ("arg", i + 1) and x[2][1] == none for i, (_, x) in enumerate(oks[0][4]))
        ctx.check(good, "AGREE", f.key, "both-packages-tweaked-with-None",
                  "Taproot post_dkg must apply the key-path-only tweak (None) to both the key package and the public key package", f.loc)
    f = ctx.anchor(CORE + "traits::Ciphersuite::post_dkg")
    if f:
        v = FnView.get(P, f)
        oks = ok_values(f, v)
        ctx.check(len(oks) == 1 and oks[0] == ("agg", "tuple", None, None, (("0", ("arg", 1)), ("1", ("arg", 2)))), "AGREE", f.key,
                  "default-is-identity", "the default post_dkg must return both packages unchanged", f.loc)


def run(ctx):
    ctx.decided = ("wiring of dkg::part3 and its helpers: the signing share is the sum of every received share plus the own "
                   "share, verifying share = G * signing share, the key package's group key is a copy of the public "
                   "package's, the public package is derived from all round-one commitments plus the own one (every "
                   "identifier, every commitment, every coefficient index; short commitments refused), threshold from the "
                   "commitment length; Taproot post-processing tweaks both packages with None. Kernels: sum_commitments adds, for every index, the i-th coefficient of every commitment to a total that starts as [identity; len(first)] (in-place two-loop form or try_fold/map/collect form); evaluate_vss step (x*pow, sum+phi_k*pow) from (1, identity).")
    ctx.undecided = ("most of the property: equality of packages across participants, shares lying on the summed "
                     "polynomial, signing afterwards (agreement between runs is not a structural fact).")
    ctx.floor = 13 if ctx.core_only else 14
    refusal_inventory(ctx)
    wrappers(ctx, ['keys::dkg::part1', 'keys::dkg::part2', 'keys::dkg::part3'])
    # an honest run hands every participant exactly n-1 packages per round: that, and nothing weaker or stronger, is what the
    # count checks of part2 / part3 demand (a bound on another quantity refuses honest t == n runs or accepts short ones)
    from .c08 import count_guard
    for nm in ("part2", "part3"):
        g = ctx.anchor(CORE + "keys::dkg::" + nm)
        if g:
            count_guard(ctx, g, "package-count==max_signers-1", arg(2), arg(1))
    part3_wiring(ctx)
    helpers(ctx)
    # every valid (n, t) and identifier set: the parameter refusals are exactly the specified ones, and the share /
    # commitment evaluation the verifying shares rely on is the per-step identity decided for C06
    from .c06 import check_validate, arithmetic_kernels
    check_validate(ctx)
    arithmetic_kernels(ctx)
