"""C11 — share repair returns exactly the lost share and needs a threshold of helpers."""
from ..lib import *
from ..terms import TermCx, fmt
from .c04 import next_item, tfield

CORE = "frost_core::"
RP = CORE + "keys::repairable::"


def part1_result(P, f):
    """(H, hv, payloads): the function whose body builds repair_share_part1's Ok value — f itself, or the private helper whose
    Result f returns as it is (whatever it is called and whatever its parameters are) seen with the call's arguments — and the
    Ok payload term(s) in f's vocabulary"""
    v = FnView.get(P, f)
    if any(k == "ok" for (b, k, rv) in ret_writes(f)):
        return f, v, ok_values(f, v)
    tails = [(b, rv) for (b, k, rv) in ret_writes(f) if k == "call"]
    if len(tails) == 1:
        T = v.cx.call(tails[0][1], v.cx.site(tails[0][0]))
        H, Y = helper_call(P, f, T)
        if H is not None and H.j.get("vis") != "Public" and not H.j.get("reachable"):
            from ..inline import expand
            H = expand(P, H)          # private, infallible helpers that no rule names are spliced into the helper as well
            hv = FnView(P, H, {i + 1: a for i, a in enumerate(Y[2])}, (Y[3],))
            return H, hv, ok_values(H, hv)
    return f, v, []


def drawn_values(t):
    """generate_coefficients(helpers.len() - 1, rng) in repair_share_part1's vocabulary"""
    return (is_call(t, name="generate_coefficients") and len(t[2]) == 2 and t[2][0][0] == "bin" and t[2][0][1] == "Sub"
            and t[2][0][3] == ("const", "usize", 1) and length(arg(1))(t[2][0][2]) and t[2][1] == ("arg", 3))


def repair_draw_count(ctx):
    P = ctx.prog
    f = ctx.anchor(RP + "repair_share_part1")
    if f:
        v = FnView.get(P, f)
        H, hv, pays = part1_result(P, f)
        ent = out_entries(P, H, hv, pays[0]) if len(pays) == 1 else None
        good = ent is not None and ent[0] is not None and drawn_values(ent[0]["right"])
        # exactly one draw call, handed the caller's rng
        gc = [v.call_args(bb) for (bb, t, ci) in f.calls() if ci and ci.get("name") == "generate_coefficients"]
        good = good and len(gc) == 1 and drawn_values(("call", "x::generate_coefficients", gc[0], None, None))
        ctx.check(good, "DRAW", f.key, "draws==|helpers|-1",
                  "repair_share_part1 must draw exactly helpers.len()-1 values from the caller's rng and hand exactly those to the "
                  "first |H|-1 helpers", f.loc)


def side_view(P, X):
    """one side of a zip: (collection, element over ITEM): `.iter()`, `.iter().copied()`, `.iter().map(|x| f(x))`"""
    X = strip_iter_calls(X)
    while is_call(X) and X[1].rsplit("::", 1)[-1] in ("copied", "cloned", "iter", "into_iter") and len(X[2]) == 1:
        X = strip_iter_calls(X[2][0])
    if is_call(X, name="map") and len(X[2]) == 2:
        body = closure_body(P, X[2][1], {2: ITEM})
        base, inner = side_view(P, X[2][0])
        if body is None or inner != ITEM:
            return X, None
        return base, body
    return X, ITEM


def out_entries(P, f, v, t):
    """the returned map of compute_last_random_value as (pairs, singles): pairs = dict(left, right, key, val) for entries made
    from the i-th elements of two collections zipped together (key/val over ITEM = the pair), singles = [(key, val)] — whether
    written `zip(..).collect()` + insert or as a loop of inserts over the zip"""
    pairs, singles = None, []
    for c in map_components(P, f, v, t):
        if c[0] == "each" and is_call(c[1], name="zip") and pairs is None:
            (lb, le), (rb, re_) = side_view(P, c[1][2][0]), side_view(P, c[1][2][1])
            if le is None or re_ is None:
                return None
            m = [(lambda x: x == ("field", ITEM, None, "0"), subst(le, [(lambda y: y == ITEM, ("field", ITEM, None, "0"))])),
                 (lambda x: x == ("field", ITEM, None, "1"), subst(re_, [(lambda y: y == ITEM, ("field", ITEM, None, "1"))]))]
            pairs = {"left": lb, "right": rb, "key": subst(c[2], m), "val": subst(c[3], m)}
        elif c[0] == "one":
            singles.append((c[1], c[2]))
        else:
            return None
    return pairs, singles


def run(ctx):
    ctx.decided = ("the three refusals of repair_share_part1 (fewer helpers than the helper's threshold, at full width; "
                   "caller not among the helpers; duplicate helpers) gate the draws; exactly |helpers|-1 blinding values "
                   "are drawn and the last value is zeta*share minus the sum of all of them, zeta being the Lagrange "
                   "coefficient of the caller over the helper set evaluated at the repaired identifier; parts 2 and 3 "
                   "sum every delta / sigma; part 3 returns verifying share = G*share, group key and threshold of the "
                   "public key package (threshold must be known). The part-one rules are anchored at repair_share_part1 and read its result through whatever private helper it returns.")
    ctx.undecided = "that the repaired value equals f(identifier) (interpolation arithmetic)."
    ctx.floor = 14
    refusal_inventory(ctx)
    P = ctx.prog
    wrappers(ctx, ['keys::repairable::repair_share_part1', 'keys::repairable::repair_share_part2', 'keys::repairable::repair_share_part3'])
    f = ctx.anchor(RP + "repair_share_part1")
    if f:
        v = FnView.get(P, f)
        sinks = ok_sinks(f) | call_sinks(f, lambda ci, t: ci and ci.get("name") == "generate_coefficients")
        w = Width()
        refusal(ctx, f, "SEP", "G37:helpers<min_signers",
                [("len<min", cmp_fact("lt", w.of(length(arg(1))), w.of(fld(arg(2), "min_signers")), True))],
                sinks, width=w)
        mech = [("helpers.contains(own)", cmp_fact("contains", arg(1), fld(arg(2), "identifier"), False))]
        from .c05 import lagrange_found_flag
        if lagrange_found_flag(ctx):
            # the Lagrange routine refuses an x_i outside the set: a result that can only be produced after
            # compute_lagrange_coefficient(helper set, .., own identifier) succeeded inherits that refusal
            S = set_of(P, f, v, arg(1))
            lag = [("lagrange-x_i-found", succ_fact(lambda t: is_call(t, name="compute_lagrange_coefficient") and
                                                    (S(t[2][0]) or t[2][0] == ("arg", 1)) and fld(arg(2), "identifier")(t[2][2])))]
            if sep_holds(P, f, mech + lag, ok_sinks(f), require_fail_err=False):
                ctx.ok("SEP", f.key, "G38:caller-not-in-helpers", {"mechanisms": ["contains", "lagrange-x_i-found"]})
                mech = None
        if mech is not None:
            refusal(ctx, f, "SEP", "G38:caller-not-in-helpers", mech, sinks)
        refusal(ctx, f, "SEP", "G39:duplicate-helpers",
                [("set.len!=len", cmp_fact("eq", length(dedup_of(ctx.prog, f, FnView.get(ctx.prog, f), arg(1))),
                                           length(arg(1)), False))], sinks)
    repair_draw_count(ctx)
    from .c01 import lagrange_kernel
    lagrange_kernel(ctx)
    f = ctx.anchor(RP + "repair_share_part1")
    if f:
        v1 = FnView.get(P, f)
        H, hv, pays = part1_result(P, f)
        good = False
        ent = out_entries(P, H, hv, pays[0]) if len(pays) == 1 else None
        S = set_of(P, f, v1, arg(1))
        if ent is not None and ent[0] is not None and len(ent[1]) == 1:
            pairs, (key, val) = ent[0], ent[1][0]
            val = unwrap_newtypes(val)
            zeta = lambda t: t[0] == "ok" and is_call(t[1], name="compute_lagrange_coefficient") and \
                S(t[1][2][0]) and t[1][2][1] == ("agg", "adt", "core::option::Option", "Some", (("0", ("arg", 4)),)) and \
                fld(arg(2), "identifier")(t[1][2][2])

            def lhs(t):
                t = look_through(P, t)
                return is_call(t, name="mul") and len(t[2]) == 2 and (
                    (zeta(t[2][0]) and fld(arg(2), "signing_share")(strip_newtype_fields(t[2][1]))) or
                    (zeta(t[2][1]) and fld(arg(2), "signing_share")(strip_newtype_fields(t[2][0]))))
            summ = lambda t: sum_over(P, H, hv, t, drawn_values)
            good = (key[0] == "some" and is_call(key[1], name="last") and S(key[1][2][0])
                    and is_call(val, name="sub") and lhs(val[2][0]) and summ(val[2][1])
                    and S(pairs["left"]) and drawn_values(pairs["right"])
                    and strip_newtype_fields(pairs["key"]) == ("field", ITEM, None, "0"))
            ctx.check(strip_newtype_fields(unwrap_newtypes(pairs["val"])) == ("field", ITEM, None, "1"), "PROV", f.key, "delta==random-value",
                      "each non-last delta must be exactly the drawn value", f.loc)
        ctx.check(good, "AGREE", f.key, "last==zeta*share-sum(random)",
                  "the helper's outgoing values must be the drawn values for the first |H|-1 helpers and zeta_i*s_i minus "
                  "their sum for the last helper, zeta_i = Lagrange(helpers, at repaired identifier, own identifier)",
                  f.loc)
        reductions(ctx, H.key, adaptors={"zip": 1}, min_loops=0, fn=H, view=hv, may_be_absent=("zip",))
    f = ctx.anchor(RP + "repair_share_part2")
    if f:
        reductions(ctx, f.key, adaptors={}, min_loops=0)
        v = FnView.get(P, f)
        rt = unwrap_newtypes(v.cx.local(0))
        ctx.check(sum_over(P, f, v, rt, arg(1)), "RED", f.key, "sigma==sum(all deltas)",
                  "repair_share_part2 must add up every delta it is given", f.loc)
    f = ctx.anchor(RP + "repair_share_part3")
    if f:
        reductions(ctx, f.key, adaptors={}, min_loops=0)
        v = FnView.get(P, f)
        oks = ok_values(f, v)
        if len(oks) == 1:
            kp = oks[0]
            key_package_consistent(ctx, f, kp)
            S = unwrap_newtypes(get_field(kp, "signing_share"))
            ctx.check(sum_over(P, f, v, S, arg(1)), "RED", f.key, "share==sum(all sigmas)",
                      "the repaired share must be the sum of every sigma", f.loc)
            ctx.check(get_field(kp, "identifier") == ("arg", 2) and fld(arg(3), "verifying_key")(get_field(kp, "verifying_key"))
                      and some(fld(arg(3), "min_signers"))(get_field(kp, "min_signers")), "COPY", f.key,
                      "identifier,group-key,threshold", "repaired key package must carry the given identifier and the "
                      "public key package's group key and threshold", f.loc)
            refusal(ctx, f, "SEP", "threshold-must-be-known",
                    [("min_signers.ok_or", succ_fact(fld(arg(3), "min_signers")))],
                    ok_sinks(f), require_fail_err=False)
