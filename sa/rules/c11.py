"""C11 — share repair returns exactly the lost share and needs a threshold of helpers."""
from ..lib import *
from ..terms import TermCx, fmt
from .c04 import next_item, tfield

CORE = "frost_core::"
RP = CORE + "keys::repairable::"


def repair_draw_count(ctx):
    P = ctx.prog
    f = ctx.anchor(RP + "repair_share_part1")
    if f:
        v = FnView.get(P, f)
        # draw count and wiring
        good = False
        for (b, k, t) in ret_writes(f):
            if k == "call":
                a = v.call_args(b)
                ci = callee_of(t)
                if ci.get("name") != "compute_last_random_value":
                    continue
                draws = a[2]
                good = (is_call(a[0], name="collect") and mentions(a[0], arg(1)) and a[1] == ("arg", 2)
                        and a[3] == ("arg", 4) and is_call(draws, name="generate_coefficients")
                        and draws[2][0] == ("bin", "Sub", draws[2][0][2], ("const", "usize", 1))
                        and length(arg(1))(draws[2][0][2]) and draws[2][1] == ("arg", 3))
        ctx.check(good, "DRAW", f.key, "draws==|helpers|-1",
                  "repair_share_part1 must draw exactly helpers.len()-1 values from the caller's rng and pass (helper "
                  "set, own key package, those values, repaired identifier) on", f.loc)


def run(ctx):
    ctx.decided = ("the three refusals of repair_share_part1 (fewer helpers than the helper's threshold, at full width; "
                   "caller not among the helpers; duplicate helpers) gate the draws; exactly |helpers|-1 blinding values "
                   "are drawn and the last value is zeta*share minus the sum of all of them, zeta being the Lagrange "
                   "coefficient of the caller over the helper set evaluated at the repaired identifier; parts 2 and 3 "
                   "sum every delta / sigma; part 3 returns verifying share = G*share, group key and threshold of the "
                   "public key package (threshold must be known).")
    ctx.undecided = "that the repaired value equals f(identifier) (interpolation arithmetic)."
    ctx.floor = 14
    refusal_inventory(ctx)
    P = ctx.prog
    wrappers(ctx, ['keys::repairable::repair_share_part1', 'keys::repairable::repair_share_part2', 'keys::repairable::repair_share_part3'])
    f = ctx.anchor(RP + "repair_share_part1")
    if f:
        v = FnView.get(P, f)
        sinks = ok_sinks(f) | call_sinks(f, lambda ci, t: ci and ci.get("name") in ("generate_coefficients",
                                                                                     "compute_last_random_value"))
        w = Width()
        refusal(ctx, f, "SEP", "G37:helpers<min_signers",
                [("len<min", cmp_fact("lt", w.of(length(arg(1))), w.of(fld(arg(2), "min_signers")), True))],
                sinks, width=w)
        mech = [("helpers.contains(own)", cmp_fact("contains", arg(1), fld(arg(2), "identifier"), False))]
        from .c05 import lagrange_found_flag
        clr = P.fns.get(RP + "compute_last_random_value")
        if lagrange_found_flag(ctx) and clr:
            # the Lagrange routine refuses an x_i outside the set; part1 always goes through it before Ok
            vc = FnView.get(P, clr)
            m = succ_fact(lambda t: is_call(t, name="compute_lagrange_coefficient") and t[2][0] == ("arg", 1)
                          and fld(arg(2), "identifier")(t[2][2]))
            if not sep(clr, {e for (e, fa) in vc.facts if m(fa) == "pass"}, ok_sinks(clr)):
                ok_calls = [t for (b, k, t) in ret_writes(f) if k == "call"]
                tail = all(callee_of(t) and callee_of(t).get("name") == "compute_last_random_value" for t in ok_calls)
                if tail and ok_calls:
                    mech.append(("lagrange-x_i-found", lambda fa: None))
                    # every non-Err result of part1 is the tail call: the refusal is inherited
                    ctx.ok("SEP", f.key, "G38:caller-not-in-helpers", {"mechanisms": ["contains", "lagrange-x_i-found"]})
                    mech = None
        if mech is not None:
            refusal(ctx, f, "SEP", "G38:caller-not-in-helpers", mech, sinks)
        refusal(ctx, f, "SEP", "G39:duplicate-helpers",
                [("set.len!=len", cmp_fact("eq", length(lambda t: mentions(t, call("collect")) and mentions(t, arg(1))),
                                           length(arg(1)), False))], sinks)
    repair_draw_count(ctx)
    from .c01 import lagrange_kernel
    lagrange_kernel(ctx)
    f = ctx.anchor(RP + "compute_last_random_value")
    if f:
        v = FnView.get(P, f)
        oks = ok_values(f, v)
        good = False
        if len(oks) == 1 and oks[0][0] == "mut":
            base, ops = oks[0][1], oks[0][2]
            ins = [o for o in ops if o[1] == "insert"]
            zipok = (is_call(base, name="collect") and is_call(base[2][0], name="zip")
                     and mentions(base[2][0][2][0], arg(1)) and mentions(base[2][0][2][1], arg(3)))
            if len(ins) == 1 and zipok:
                key, val = ins[0][2][0], unwrap_newtypes(ins[0][2][1])
                zeta = lambda t: t[0] == "ok" and is_call(t[1], name="compute_lagrange_coefficient") and \
                    t[1][2][0] == ("arg", 1) and t[1][2][1] == ("agg", "adt", "core::option::Option", "Some", (("0", ("arg", 4)),)) and \
                    fld(arg(2), "identifier")(t[1][2][2])
                lhs = lambda t: is_call(t, name="mul") and ((zeta(t[2][0]) and mentions(t[2][1], fld(arg(2), "signing_share")))
                                                            or (zeta(t[2][1]) and mentions(t[2][0], fld(arg(2), "signing_share"))))
                summ = lambda t: sum_over(P, f, v, t, arg(3))
                good = (key[0] == "some" and is_call(key[1], name="last") and key[1][2][0] == ("arg", 1)
                        and is_call(val, name="sub") and lhs(val[2][0]) and summ(val[2][1]))
        ctx.check(good, "AGREE", f.key, "last==zeta*share-sum(random)",
                  "the helper's outgoing values must be the drawn values for the first |H|-1 helpers and zeta_i*s_i minus "
                  "their sum for the last helper, zeta_i = Lagrange(helpers, at repaired identifier, own identifier)",
                  f.loc)
        reductions(ctx, f.key, adaptors={"zip": 1}, min_loops=0)
        # closure maps each random value unchanged into a Delta
        zipped = [s for s in subterms(oks[0]) if is_call(s, name="zip")] if oks else []
        for s in subterms(zipped[0][2][1]) if zipped else []:
            if s[0] == "closure":
                cf = P.fns.get(s[1])
                ct = unwrap_newtypes(TermCx(P, cf).local(0)) if cf else None
                ctx.check(ct == ("arg", 2), "PROV", f.key, "delta==random-value",
                          "each non-last delta must be exactly the drawn value", f.loc)
    f = ctx.anchor(RP + "repair_share_part2")
    if f:
        reductions(ctx, f.key, adaptors={}, min_loops=0)
        v = FnView.get(P, f)
        rt = unwrap_newtypes(v.cx.local(0))
        ctx.check(sum_over(P, f, v, rt, arg(1)), "RED", f.key, "sigma==sum(all deltas)",
                  "repair_share_part2 must add up every delta it is given", f.loc)
    f = ctx.anchor(RP + "repair_share_part3")
    if f:
        reductions(ctx, f.key, adaptors={}, min_loops=0)
        v = FnView.get(P, f)
        oks = ok_values(f, v)
        if len(oks) == 1:
            kp = oks[0]
            key_package_consistent(ctx, f, kp)
            S = unwrap_newtypes(get_field(kp, "signing_share"))
            ctx.check(sum_over(P, f, v, S, arg(1)), "RED", f.key, "share==sum(all sigmas)",
                      "the repaired share must be the sum of every sigma", f.loc)
            ctx.check(get_field(kp, "identifier") == ("arg", 2) and fld(arg(3), "verifying_key")(get_field(kp, "verifying_key"))
                      and some(fld(arg(3), "min_signers"))(get_field(kp, "min_signers")), "COPY", f.key,
                      "identifier,group-key,threshold", "repaired key package must carry the given identifier and the "
                      "public key package's group key and threshold", f.loc)
            refusal(ctx, f, "SEP", "threshold-must-be-known",
                    [("min_signers.ok_or", succ_fact(lambda t: t[0] == "ok_or" and fld(arg(3), "min_signers")(t[1])))],
                    ok_sinks(f), require_fail_err=False)
