"""C05 — a signature share is bound to one message, one commitment set and one signer set."""
from ..lib import *
from ..terms import TermCx, fmt
from .c04 import next_item, tfield

CORE = "frost_core::"
ROLES = [CORE + "round2::sign", CORE + "aggregate_custom", CORE + "verify_signature_share"]


def lagrange_found_flag(ctx):
    """compute_lagrange_coefficient refuses when x_i is not in the set: a bool flag, set only under x_i == x_j,
    whose false edge returns Err.  Returns True if that mechanism is present."""
    f = ctx.prog.fns.get(CORE + "compute_lagrange_coefficient")
    if not f or not f.has_body:
        return False
    v = FnView.get(ctx.prog, f)
    item = next_item(lambda t: mentions(t, arg(1)))
    xi = lambda t: strip_newtype_fields(t) == ("arg", 3) or (t[0] == "field" and strip_newtype_fields(t[1]) == ("arg", 3) and t[3] == "0")
    xj = lambda t: item(strip_newtype_fields(t)) or (t[0] == "field" and item(strip_newtype_fields(t[1])) and t[3] == "0")
    eq_true = {e for (e, fact) in v.facts if fact[0] == "cond" and fact[1] == "eq" and fact[4] and fact[3] is not None
               and ((xi(fact[2]) and xj(fact[3])) or (xi(fact[3]) and xj(fact[2])))}
    if not eq_true:
        return False
    for (e, fact) in v.facts:
        if fact[0] == "cond" and fact[1] == "other" and fact[2][0] == "phi" and fact[4]:
            l = fact[2][1][1]
            sets = [d for d in f.defs().get(l, []) if d[0] == "assign" and d[3]["k"] == "use"
                    and d[3]["op"].get("const", {}).get("bits") == "1"]
            if not sets:
                continue
            r = f.reach(0, removed=frozenset(eq_true))
            if any(d[1] in r for d in sets):
                continue
            # pass edge = flag true; removing it must cut Ok
            if not sep(f, {e}, ok_sinks(f)):
                return True
    return False


def agg_identifier_sets(ctx):
    """aggregate_custom: the identifiers under which shares are filed must be exactly the package's signer set — a share
    filed under another identifier (its sum contribution unchanged) must be refused.  commitment keys ⊆ share keys by the
    all(..) pre-check in every detection mode; equality of sizes gives the other inclusion."""
    P = ctx.prog
    f = ctx.anchor(CORE + "aggregate_custom")
    if not f:
        return
    v = FnView.get(P, f)
    refusal(ctx, f, "SEP", "G-ids:|commitments|==|shares|",
            [("len!=len", cmp_fact("eq", length(fld(arg(1), "signing_commitments")), length(arg(2)), False))], ok_sinks(f))
    # every signer of the package has a share filed under its identifier, in every detection mode: a per-element refusal over the
    # keys of the commitment map (closure of all / !any, a loop, or either of them in an extracted helper)
    from ..lib import _forall
    keys_of_sc = lambda s_: is_call(s_, name="keys") and fld(arg(1), "signing_commitments")(s_[2][0])
    r, why = _forall(P, v, keys_of_sc, [("shares.contains_key(id)", lambda item: cmp_fact("contains", arg(2), item, False))],
                     ok_sinks(f), True, 0)
    ctx.check(r is not None, "SEP", f.key, "G-ids:every-signer-has-a-share(all)",
              "aggregate_custom can proceed for a signer whose identifier has no share filed under it (in some cheater-detection "
              "mode): a share claimed under another identifier would be aggregated — %s" % why, f.loc,
              {"form": r["kind"]} if r else None)
    ctx.check(r is not None, "PROV", f.key, "G-ids:all-closure-implies-share-present",
              "in some cheater-detection mode the identifier pre-check of aggregate_custom can succeed for a signer whose "
              "identifier has no share filed under it: a share claimed under another identifier would be aggregated", f.loc)


def run(ctx):
    ctx.decided = ("the signer refuses when its own entry is missing (any of three mechanisms) or differs from the "
                   "commitments of the nonces it is given (sole check), before nonces/share are used; a package with an "
                   "identity hiding or binding commitment is refused before that element is accumulated (explicit "
                   "comparison or the serialisation of every element in the commitment-list encoding); every role "
                   "recomputes binding factors, group commitment and challenge from its own arguments (no statics).")
    ctx.undecided = ("that substituted messages/commitments/identifiers are *rejected* (needs collision resistance "
                     "and the algebra); enumeration of concurrent sessions.  Binding coverage of the H1/H2 preimages "
                     "is decided by the dependence rules below.")
    ctx.floor = 50
    P = ctx.prog
    f = ctx.anchor(CORE + "round2::sign")
    if f:
        v = FnView.get(P, f)
        sp = hooked(arg(1))
        kp = hooked(arg(3))
        nonces = hooked(arg(2))
        sinks = ok_sinks(f) | call_sinks(f, lambda ci, t: ci and ci.get("name") == "compute_signature_share")
        own_get = call("get", fld(sp, "signing_commitments"), fld(kp, "identifier"))
        mech = [("get(own).ok_or", succ_fact(own_get)),
                ("binding_factor_list.get(own)", succ_fact(
                    lambda t: is_call(t, name="get") and fld(kp, "identifier")(t[2][1])
                    and mentions(t[2][0], call("compute_binding_factor_list"))))]
        if lagrange_found_flag(ctx):
            mech.append(("lagrange-x_i-found", succ_fact(lagrange_of(fld(kp, "identifier"), sp))))
        refusal(ctx, f, "SEP", "G02:own-commitment-missing", mech, sinks, require_fail_err=False)
        refusal(ctx, f, "SEP", "G03:own-commitment-differs",
                [("nonces.commitments==entry", cmp_fact("eq", fld(nonces, "commitments"), some(own_get), False))],
                sinks)
        # the nonces that are used are the ones whose commitments were compared
        for (bb, t, ci) in v.calls_named("compute_signature_share"):
            a = v.call_args(bb)
            ctx.check(hooked(arg(2))(a[1]) and hooked(arg(3))(a[4]), "PROV", f.key, "share-from-checked-nonces",
                      "compute_signature_share does not receive the (post-hook) nonces and key package that were "
                      "validated: %s" % fmt(a[1]), loc_of(f, bb))

    # identity commitments: explicit comparison (A) or serialisation in the encoded list (B), per element
    gc = ctx.anchor(CORE + "compute_group_commitment")
    enc = ctx.anchor(CORE + "round1::encode_group_commitments")
    A = {"hiding": False, "binding": False}
    B = {"hiding": False, "binding": False}
    if gc:
        v = FnView.get(P, gc)
        item = next_item(fld(arg(1), "signing_commitments"))
        lr = [lp for lp in loop_report(P, gc)]
        for which in ("hiding", "binding"):
            elem = lambda t, which=which: mentions(t, lambda s: is_field(s, "SigningCommitments", which)
                                                   and mentions(s[1], item))
            ident = lambda t: is_call(t, name="identity")
            m = cmp_fact("eq", ident, elem, True)
            pass_edges = {e for (e, fact) in v.facts if m(fact) == "pass"
                          and all(fail_is_error(gc, e2) for (e2, f2) in v.facts if e2[0] == e[0] and m(f2) == "fail")}
            # sinks: where this element is accumulated
            sinks = set()
            for (bb, t, ci) in gc.calls():
                if not ci or ci.get("name") not in ("add", "push", "add_assign"):
                    continue
                if any(elem(x) for x in v.call_args(bb)):
                    sinks.add(bb)
            if sinks and not sep(gc, pass_edges, sinks):
                A[which] = True
    if enc:
        v = FnView.get(P, enc)
        # every entry's element goes through the checked serialisation (an identity element fails it), whatever the form of
        # the traversal: the part is the Ok payload of serialize(element) and sits on every completed iteration
        _, pv = commitment_entry_parts(P)
        for which in ("hiding", "binding"):
            B[which] = bool(pv) and pv["source"] == ("arg", 1) and any(entry_part(which)(p) for p in pv["parts"])
        # chain: every role reaches compute_group_commitment only after compute_binding_factor_list succeeded on the
        # same package, which encodes the list (binding_factor_preimages -> encode_group_commitments, both with `?`)
        chain = True
        bfp = P.fns.get(CORE + "SigningPackage::<C>::binding_factor_preimages")
        cbl = P.fns.get(CORE + "compute_binding_factor_list")
        if not (bfp and cbl):
            chain = False
        else:
            vb = FnView.get(P, bfp)
            m = succ_fact(lambda t: is_call(t, name="encode_group_commitments")
                          and fld(arg(1), "signing_commitments")(t[2][0]))
            chain = chain and not sep(bfp, {e for (e, fa) in vb.facts if m(fa) == "pass"}, ok_sinks(bfp))
            vc = FnView.get(P, cbl)
            m = succ_fact(lambda t: is_call(t, name="binding_factor_preimages") and t[2][0] == ("arg", 1))
            chain = chain and not sep(cbl, {e for (e, fa) in vc.facts if m(fa) == "pass"}, ok_sinks(cbl))
        for rk in ROLES:
            rf = P.fns.get(rk)
            if not rf:
                chain = False
                continue
            vr = FnView.get(P, rf)
            gcs = vr.calls_named("compute_group_commitment")
            for (bb, t, ci) in gcs:
                pkg = v.cx.operand  # unused
                a = vr.call_args(bb)
                base = a[0]
                # strip pre_commitment hook
                def same_pkg(x, base=base):
                    return x == base or hooked(lambda y: y == x)(base)
                m = succ_fact(lambda t, same_pkg=same_pkg: is_call(t, name="compute_binding_factor_list")
                              and same_pkg(t[2][0]))
                edges = {e for (e, fa) in vr.facts if m(fa) == "pass"}
                if sep(rf, edges, {bb}):
                    chain = False
        if not chain:
            B = {"hiding": False, "binding": False}
        # sibling: all Group::serialize impls refuse the identity
        sers = [fn for k, fn in P.fns.items() if k.endswith(" as frost_core::traits::Group>::serialize")]
        allrej = len(sers) >= 6
        for sf in sers:
            vs = FnView.get(P, sf)
            m = cmp_fact("eq", contains_term(arg(1)), lambda t: mentions(t, lambda s: is_call(s, name="identity")
                                                                          or (s[0] == "const" and "IDENTITY" in str(s[2]))), True)
            ok1 = refusal(ctx, sf, "SEP", "G50:serialize-refuses-identity", [("==identity", m)], ok_sinks(sf))
            allrej = allrej and ok1
        if not allrej:
            B = {"hiding": False, "binding": False}
    for which in ("hiding", "binding"):
        ctx.check(A[which] or B[which], "SEP", CORE + "compute_group_commitment", "G06:identity-%s-refused" % which,
                  "an identity %s commitment is accumulated into the group commitment without having been refused: "
                  "neither the explicit comparison in compute_group_commitment nor the serialisation of every %s "
                  "element in encode_group_commitments (on every role's path) rejects it" % (which, which),
                  gc.loc if gc else None, {"explicit": A[which], "encoding": B[which]})
    agg_identifier_sets(ctx)
    # no cached session state
    st = [s for s in P.statics if s["crate"].startswith("frost")]
    ctx.check(not st, "TAB", "workspace", "no-statics",
              "the workspace defines statics %s: share verification may depend on state outside its arguments"
              % [s["path"] for s in st])
    from . import c05_cover
    c05_cover.run(ctx)
