"""C12 — wire encodings round-trip, are canonical, and reject everything else (engine G + guards)."""
import os, re
from ..lib import *
from ..terms import TermCx, fmt, short
from ..mir import callee_of
from .. import serde_tab, facts

CORE = "frost_core::"

# ---- audited dependency decoders (pinned to the versions in /repo/Cargo.lock; a version change fails closed) ----
# verdict: "canonical" | "neutral" (no decoding decision) | ("needs", [guards]) — guards that make the impl canonical
AUDIT = {
    ("curve25519_dalek", "5.0.0"): {
        "curve25519_dalek::scalar::Scalar::from_canonical_bytes": "canonical",      # src/scalar.rs: high bit clear & s == reduce(s)
        "curve25519_dalek::edwards::CompressedEdwardsY::from_slice": "neutral",     # length check only
        "curve25519_dalek::edwards::CompressedEdwardsY::decompress": ("needs", ["identity", "torsion"]),
        # decompress ignores y >= p; every such encoding decodes to the identity or to a point outside the prime-order
        # subgroup (19 candidates enumerated while auditing), so identity + torsion-free guards make it canonical
        "curve25519_dalek::edwards::EdwardsPoint::is_torsion_free": "neutral",
        "curve25519_dalek::ristretto::CompressedRistretto::from_slice": "neutral",
        "curve25519_dalek::ristretto::CompressedRistretto::decompress": "canonical",  # ristretto255 decoding is canonical by construction
        "curve25519_dalek::traits::Identity::identity": "neutral",
    },
    ("ed448_goldilocks", "0.14.0-pre.15"): {
        # src/edwards/scalar.rs: is_valid = bytes[56]==0 | (bytes[55]>>6)==0  (OR instead of AND): byte 56 is ignored
        "ed448_goldilocks::field::scalar::Scalar::<C>::from_canonical_bytes": ("needs", ["reencode"]),
        "ed448_goldilocks::edwards::affine::CompressedEdwardsY::decompress_unchecked": ("needs", ["reencode", "identity", "torsion"]),
        "ed448_goldilocks::edwards::affine::AffinePoint::compress": "neutral",
        "ed448_goldilocks::edwards::affine::AffinePoint::to_edwards": "neutral",
        "ed448_goldilocks::edwards::extended::EdwardsPoint::to_affine": "neutral",
        "ed448_goldilocks::edwards::extended::EdwardsPoint::is_torsion_free": "neutral",
        "ed448_goldilocks::edwards::scalar::<impl ed448_goldilocks::field::scalar::Scalar<ed448_goldilocks::Ed448>>::to_bytes_rfc_8032": "neutral",
    },
    ("sec1", "0.8.1"): {
        # src/point.rs: from_bytes accepts tags 0,2,3,4,5 with the tag's length; 33 bytes => compressed (2,3) or compact (5)
        "sec1::point::EncodedPoint::<Size>::from_bytes": ("needs", ["sec1-compressed|reencode"]),
        "sec1::point::EncodedPoint::<Size>::is_compressed": "neutral",
        "sec1::point::EncodedPoint::<Size>::is_compact": "neutral",
        "sec1::point::EncodedPoint::<Size>::tag": "neutral",
        "sec1::point::EncodedPoint::<Size>::as_bytes": "neutral",
    },
    ("elliptic_curve", "0.14.1"): {
        "elliptic_curve::sec1::FromSec1Point::from_sec1_point": "neutral",   # decompresses / decompacts what from_bytes accepted; x >= p rejected
        "elliptic_curve::sec1::ToSec1Point::to_sec1_point": "neutral",
    },
    ("ff", None): {"ff::PrimeField::from_repr": "canonical"},           # p256/k256 Scalar::from_repr: CtOption::new(.., value < modulus)
    ("primeorder", "0.14.0"): {"primeorder::affine::AffinePoint::<C>::is_identity": "neutral"},
    ("group", None): {"group::CurveAffine::is_identity": "neutral"},
    ("subtle", None): {"subtle::CtOption::<T>::into_option": "neutral"},
    ("k256", "0.14.0"): {"k256::arithmetic::projective::ProjectivePoint::to_affine": "neutral"},
    ("p256", "0.14.0"): {},
}


# crates that contain no decoder at all: every function of theirs is neutral for canonicity
NEUTRAL_CRATES = {"subtle": "constant-time Choice/CtOption plumbing", "ctutils": "constant-time Choice/CtOption plumbing"}


def lock_versions():
    out = {}
    p = os.path.join(facts.REPO, "Cargo.lock")
    if os.path.exists(p):
        txt = open(p).read()
        for m in re.finditer(r'name = "([^"]+)"\nversion = "([^"]+)"', txt):
            out.setdefault(m.group(1).replace("-", "_"), set()).add(m.group(2))
    return out


def decoded(t):
    """term derived from the result of a dependency function that makes a decoding decision (an audited row other than
    "neutral": `decompress`, `from_bytes`, `from_repr`, ..) — not from a mere re-packaging of the input bytes such as
    `CompressedEdwardsY::from_slice`, whose value is still the received encoding"""
    deciding = {path for tab in AUDIT.values() for path, row in tab.items() if row != "neutral"}
    return mentions(t, lambda s: is_call(s) and s[1] in deciding)


def guard_present(ctx, f, v, kind):
    """is the Ok return of decoder impl f separated from entry by the success edge of a guard of this kind?"""
    inp = arg(1)
    if kind == "identity":
        ms = [cmp_fact("eq", lambda t: mentions(t, lambda s: is_call(s, name="identity") or (s[0] == "const" and "IDENTITY" in str(s[2]))), decoded, True),
              lambda fa: (("fail" if fa[4] else "pass") if fa[0] == "cond" and fa[1] == "other" and
                          mentions(fa[2], lambda s: is_call(s, name="is_identity") and decoded(s[2][0])) else None)]
    elif kind == "torsion":
        ms = [lambda fa: (("pass" if fa[4] else "fail") if fa[0] == "cond" and fa[1] == "other" and
                          mentions(fa[2], lambda s: is_call(s, name="is_torsion_free") and decoded(s[2][0])) else None)]
    elif kind == "reencode":
        reenc = lambda t: mentions(t, lambda s: is_call(s) and s[1].rsplit("::", 1)[-1] in
                                   ("compress", "to_bytes", "to_bytes_rfc_8032", "to_repr", "to_sec1_point", "serialize", "as_bytes", "to_sec1_bytes")
                                   and any(decoded(x) for x in s[2]))
        ms = [cmp_fact("eq", reenc, lambda t: mentions(t, inp) and not decoded(t), False),
              cmp_fact("eq", lambda t: mentions(t, inp) and not decoded(t), reenc, False)]
    elif kind == "sec1-compressed":
        ms = [lambda fa: (("pass" if fa[4] else "fail") if fa[0] == "cond" and fa[1] == "other" and
                          mentions(fa[2], lambda s: is_call(s, name="is_compressed")) else None),
              lambda fa: (("fail" if fa[4] else "pass") if fa[0] == "cond" and fa[1] == "other" and
                          mentions(fa[2], lambda s: is_call(s, name="is_compact")) else None)]
    else:
        return False
    # compositional SEP: also through helpers, `and_then` closures and values returned as they are
    return sep_holds(ctx.prog, f, [("guard:" + kind, m) for m in ms], ok_sinks(f))


def check_decoders(ctx):
    P = ctx.prog
    vers = lock_versions()
    impls = [(k, f) for k, f in P.fns.items() if f.has_body and
             (k.endswith(" as frost_core::traits::Field>::deserialize") or k.endswith(" as frost_core::traits::Group>::deserialize"))]
    ctx.check(len(impls) == 12, "TAB-decoder", "workspace", "twelve-decoder-impls",
              "expected 6 Field::deserialize + 6 Group::deserialize implementations, found %d" % len(impls))
    for k, f in sorted(impls):
        v = FnView.get(P, f)
        fam = [f] + [g for kk, g in P.fns.items() if kk.startswith(k + "::{closure") and g.has_body]
        needs = set()
        verdicts = []
        bad = []
        for g in fam:
            for (bb, t, ci) in g.calls():
                if not ci or ci["crate"] in ("core", "alloc", "std") or ci["crate"].startswith("frost"):
                    continue
                if ci["crate"] in NEUTRAL_CRATES:
                    verdicts.append((short(ci["path"]), "neutral (%s)" % NEUTRAL_CRATES[ci["crate"]]))
                    continue
                path = ci.get("resolved") if False else ci["path"]
                row = None
                for (crate, ver), tab in AUDIT.items():
                    if path in tab:
                        if ver is not None and ver not in vers.get(crate, set()):
                            bad.append("%s: audited at %s %s but Cargo.lock has %s" % (short(path), crate, ver, sorted(vers.get(crate, []))))
                        row = tab[path]
                if row is None:
                    bad.append("%s is not in the audited decoder table" % path)
                    continue
                verdicts.append((short(path), row if isinstance(row, str) else "needs " + ",".join(row[1])))
                if isinstance(row, tuple):
                    needs |= set(row[1])
        for b in bad:
            ctx.violation("TAB-decoder", k, "unaudited:" + b.split(":")[0].split(" ")[0],
                          "decoder impl %s calls a dependency function outside the audited table: %s (canonicity of the "
                          "accepted encodings is unknown)" % (short(k), b), f.loc)
        missing = []
        for n in sorted(needs):
            alts = n.split("|")
            if not any(guard_present(ctx, f, v, a) for a in alts):
                missing.append(n)
        # any impl is canonical regardless of decoder if its Ok is gated on re-encode-and-compare
        if missing and guard_present(ctx, f, v, "reencode"):
            missing = []
        ctx.check(not missing and not bad, "TAB-decoder", k, "canonical",
                  "%s accepts non-canonical encodings: the dependency decoder it relies on needs the guard(s) %s "
                  "(decoders: %s)" % (short(k), missing, verdicts), f.loc, {"decoders": verdicts, "guards_needed": sorted(needs)})
        # every Group::deserialize refuses the identity
        if k.endswith("Group>::deserialize"):
            ctx.check(guard_present(ctx, f, v, "identity"), "SEP", k, "G50:identity-encoding-refused",
                      "%s accepts an encoding of the identity element" % short(k), f.loc)


def run(ctx):
    ctx.decided = ("each of the 12 Field/Group decoders either gates Ok on re-encode-and-compare or calls only dependency "
                   "decoders that an audited table (pinned to Cargo.lock versions) marks canonical, with the table's "
                   "required guards (identity, torsion-free, SEC1 compressed tag) present on every path to Ok; exact "
                   "length conversions; header version and ciphersuite-id refusals reached by every header-bearing type; "
                   "zero refusals of Identifier/SigningKey with constructor confinement; writer/reader agreement of "
                   "every serde pair (field names, order, element types, codec pairs).")
    ctx.undecided = ("value-level round trip, JSON-level canonicity, behaviour of dependency decoders beyond the audited "
                     "rows.")
    ctx.floor = 70
    P = ctx.prog
    check_decoders(ctx)
    # ---- (2) exact length conversion before decoding
    for nm, dec in (("SerializableScalar", "Field"), ("SerializableElement", "Group")):
        f = ctx.anchor(CORE + "serialization::%s::<C>::deserialize" % nm)
        if f:
            v = FnView.get(P, f)
            # `bytes.try_into()` is `T::try_from(bytes)` (blanket impl): the checked, exact-length conversion either way
            conv = lambda t: (t[0] == "ok" and (is_call(t[1], name="try_into") or is_call(t[1], name="try_from")) and t[1][2][0] == ("arg", 1))
            refusal(ctx, f, "SEP", "G48:exact-length-then-decode",
                    [("try_into(bytes)? then deserialize?", succ_fact(lambda t: is_call(t, name="deserialize") and conv(t[2][0])))],
                    ok_sinks(f), require_fail_err=False)
    f = ctx.anchor(CORE + "signature::Signature::<C>::default_deserialize")
    if f:
        # a + b with a = length of an encoded element, b = length of an encoded scalar
        enc_len = lambda of: length(lambda t: mentions(t, lambda s: is_call(s, name="serialize") and any(mentions(x, lambda u: is_call(u, name=of)) for x in s[2])))
        how = exact_length(P, f, ok_sinks(f), arg(1), sum_of=(enc_len("generator"), enc_len("zero")))
        ctx.check(how is not None, "SEP", f.key, "G46:exact-signature-length",
                  "a signature encoding must be refused unless its length is exactly |encoded element| + |encoded scalar| "
                  "(no missing, no trailing bytes)", f.loc, {"idiom": how})
    f = ctx.anchor("<frost_secp256k1_tr::Secp256K1Sha256TR as frost_core::traits::Ciphersuite>::deserialize_signature")
    if f:
        how = exact_length(P, f, ok_sinks(f), arg(1), const_n=64)
        ctx.check(how is not None, "SEP", f.key, "G47:exact-64-bytes",
                  "a Taproot signature encoding must be refused unless it is exactly 64 bytes long", f.loc, {"idiom": how})
        v = FnView.get(P, f)
        # even-R tag on decode: R_bytes[0] = 0x02
        good = any(mentions(a, lambda s: s[0] == "updated" and any(val == ("const", "u8", 2) for _, val in s[2]))
                   for (bb, t, ci) in f.calls() if ci and ci.get("name") == "deserialize" for a in v.call_args(bb))
        ctx.check(good, "PROV", f.key, "x-only-R-decoded-with-even-tag", "Taproot signatures must decode R with the even-y tag 0x02", f.loc)
    for key in (CORE + "signature::Signature::<C>::default_deserialize",
                "<frost_secp256k1_tr::Secp256K1Sha256TR as frost_core::traits::Ciphersuite>::deserialize_signature"):
        f = P.fns.get(key)
        if f and f.has_body:
            v = FnView.get(P, f)
            # (read without inlining: the decoders are recognised as calls, however short their bodies are)
            flat = TermCx(P, f, inline=False)
            oks = [flat.operand(rv["ops"][0]) for (b, k, rv) in ret_writes(f) if k == "ok"]
            good = len(oks) == 1
            if good:
                if is_call(oks[0], name="new") and len(oks[0][2]) == 2 and "Signature" in oks[0][1]:
                    R, z = oks[0][2]                 # Signature::new(R, z)
                else:
                    R, z = get_field(oks[0], "R"), get_field(oks[0], "z")
                dec = lambda t, tr: t[0] == "ok" and is_call(t[1], name="deserialize") and (t[1][1].endswith("::" + tr + "::deserialize")) and mentions(t[1], arg(1))
                good = dec(R, "Group") and dec(z, "Field")
            ctx.check(good, "PROV", key, "R-and-z-through-checked-decoders",
                      "a decoded signature's R and z must be the results of Group::deserialize / Field::deserialize of the "
                      "input bytes (out-of-range scalars and invalid points rejected, nothing reduced)", f.loc)
    f = ctx.anchor(CORE + "keys::VerifiableSecretSharingCommitment::<C>::deserialize_whole")
    if f:
        v = FnView.get(P, f)
        sizes = [v.call_args(bb)[1] for (bb, t, ci) in f.calls() if ci and ci.get("name") == "chunks_exact" and len(v.call_args(bb)) == 2]
        chunk = lambda t: any(t == s_ for s_ in sizes)
        refusal(ctx, f, "SEP", "G49:no-remainder",
                [("remainder.is_empty", cmp_fact("empty", lambda t: is_call(t, name="remainder"), None, False)),
                 ("len % chunk == 0", cmp_fact("eq", lambda t: t[0] == "bin" and t[1] == "Rem" and length(arg(1))(t[2]) and chunk(t[3]), const(0), False))],
                ok_sinks(f))
    # ---- (3) header
    f = ctx.anchor(CORE + "serialization::version_deserialize")
    if f:
        refusal(ctx, f, "SEP", "G44:version!=0-refused",
                [("version!=0", cmp_fact("eq", const(0), lambda t: t[0] == "ok" and is_call(t[1], name="deserialize"), False))], ok_sinks(f))
    f = ctx.anchor(CORE + "serialization::ciphersuite_deserialize")
    if f:
        v = FnView.get(P, f)
        # the compared values themselves, up to value-preserving views (as_str/as_ref/..): a comparison of lengths, prefixes or
        # hashes of them is not the check
        VIEW = ("as_str", "as_ref", "as_slice", "as_bytes", "deref", "borrow", "clone", "to_owned", "as_mut")

        def peel_view(t):
            while is_call(t) and t[1].rsplit("::", 1)[-1] in VIEW and len(t[2]) == 1:
                t = t[2][0]
            return t
        is_id = lambda s: s[0] == "const" and ("Ciphersuite::ID" in str(s[2]) or str(s[2]).startswith("uneval:"))
        short = lambda t: is_call(t, name="to_be_bytes") and is_call(t[2][0], name="crc32") and is_call(t[2][0][2][0], name="as_bytes") and is_id(t[2][0][2][0][2][0])
        idc = lambda t: is_id(peel_view(t)) or short(peel_view(t)) or is_call(peel_view(t), name="short_id")
        got = lambda t: peel_view(t)[0] == "ok" and is_call(peel_view(t)[1], name="deserialize")
        refusal(ctx, f, "SEP", "G45:other-ciphersuite-refused",
                [("id!=C::ID", cmp_fact("eq", idc, got, False)), ("id!=C::ID", cmp_fact("eq", got, idc, False))], ok_sinks(f))
        # both encodings exist and each decodes the field it compares (the SEP above covers every path to Ok)
        des = [bb for (bb, t, ci) in f.calls() if ci and ci.get("name") == "deserialize"]
        hr = [e for (e, fa) in v.facts if fa[0] == "cond" and mentions(fa[2], lambda s: is_call(s, name="is_human_readable"))]
        ctx.check(len(des) == 2 and len(hr) == 2, "SEP", f.key, "G45:both-encodings-checked",
                  "expected one decoding of the ciphersuite field per encoding (human readable / binary)", f.loc)
    # header-bearing types reach both checks through Header's Deserialize
    hdr = CORE + "Header"
    fam = serde_tab.family(P, hdr, "de")
    calls = {ci["name"] for g in fam for (_, _, ci) in g.calls() if ci and ci["crate"] == "frost_core"}
    ctx.check({"version_deserialize", "ciphersuite_deserialize"} <= calls, "TAB-serde", hdr, "header-checks-reached",
              "Header's Deserialize no longer calls both version_deserialize and ciphersuite_deserialize (calls: %s)" % sorted(calls))
    famS = serde_tab.family(P, hdr, "ser")
    callsS = {ci["name"] for g in famS for (_, _, ci) in g.calls() if ci and ci["crate"] == "frost_core"}
    ctx.check("ciphersuite_serialize" in callsS, "TAB-serde", hdr, "header-writes-ciphersuite-id", "Header's Serialize no longer writes the ciphersuite id")
    nh = 0
    for path, a in sorted(P.adts.items()):
        if not a["crate"].startswith("frost") or a["kind"] != "Struct":
            continue
        fl = a["variants"][0]["fields"]
        if any(x["name"] == "header" and x.get("adt") == hdr for x in fl):
            nh += 1
            d = serde_tab.describe(P, path)
            ok = ("header", "frost_core::Header<C>") in d["ser"]["fields"] and d["de"]["seq"][:1] == ["frost_core::Header<C>"] and \
                "header" in d["de"]["names"] and "header" in d["de"]["missing"] and d["ser"]["fields"][0][0] == "header"
            ctx.check(ok, "TAB-serde", path, "header-first-written-and-required",
                      "%s must write its header first and require it when reading" % short(path))
    ctx.check(nh >= 9, "TAB-serde", "workspace", "nine-header-bearing-types", "expected >= 9 header-bearing wire types, found %d" % nh)
    # ---- (4) zero rejection + constructor confinement
    for key, what in ((CORE + "identifier::Identifier::<C>::new", "G42:zero-identifier-refused"),
                      (CORE + "signing_key::SigningKey::<C>::from_scalar", "G43:zero-signing-key-refused")):
        f = ctx.anchor(key)
        if f:
            refusal(ctx, f, "SEP", what, [("==zero", cmp_fact("eq", arg(1), lambda t: is_call(t, name="zero"), True))], ok_sinks(f))
    sites = {CORE + "identifier::Identifier": [], CORE + "signing_key::SigningKey": []}
    for f in P.fns.values():
        if not f.has_body:
            continue
        for b in f.blocks:
            for s in b.stmts:
                if s["k"] == "assign" and s["rv"]["k"] == "agg" and s["rv"].get("adt") in sites:
                    sites[s["rv"]["adt"]].append(f.key)
    allow_id = {CORE + "identifier::Identifier::<C>::new", "<frost_core::identifier::Identifier<C> as core::clone::Clone>::clone"}
    extra = sorted(set(sites[CORE + "identifier::Identifier"]) - allow_id)
    ctx.check(not extra and CORE + "identifier::Identifier::<C>::new" in sites[CORE + "identifier::Identifier"], "CONFINE",
              CORE + "identifier::Identifier", "constructed-only-in-new",
              "Identifier values are constructed outside Identifier::new (%s): the zero check can be bypassed" % extra)
    allow_sk = {CORE + "signing_key::SigningKey::<C>::new", CORE + "signing_key::SigningKey::<C>::from_scalar",
                "<frost_core::signing_key::SigningKey<C> as core::clone::Clone>::clone", CORE + "keys::reconstruct",
                CORE + "keys::refresh::compute_refreshing_shares", CORE + "keys::refresh::refresh_dkg_part1"}
    extra = sorted(set(sites[CORE + "signing_key::SigningKey"]) - allow_sk)
    ctx.check(not extra, "CONFINE", CORE + "signing_key::SigningKey", "constructed-only-at-reviewed-sites",
              "SigningKey values are constructed at unreviewed sites %s: the zero check of from_scalar can be bypassed" % extra)
    # decoding entry points go through the checked constructors
    for key, via in ((CORE + "identifier::Identifier::<C>::deserialize", "new"), (CORE + "signing_key::SigningKey::<C>::deserialize", "from_scalar"),
                     ("<frost_core::identifier::Identifier<C> as core::convert::TryFrom<frost_core::serialization::SerializableScalar<C>>>::try_from", "new")):
        f = ctx.anchor(key)
        if f:
            tails = [callee_of(t).get("name") for (b, k, t) in ret_writes(f) if k == "call" and callee_of(t)]
            ctx.check(tails == [via], "PROV", key, "decodes-through-" + via,
                      "%s must return the result of %s (found tail calls %s)" % (short(key), via, tails), f.loc)
    # ---- (5) writer / reader agreement
    adts = set()
    for im in P.impls:
        tr = im.get("trait") or ""
        if tr in ("serde_core::ser::Serialize", "serde_core::de::Deserialize") and im["crate"].startswith("frost") \
                and im.get("self_adt") and "::_::" not in im["self_adt"] and "impl" not in im["self_adt"]:
            adts.add(im["self_adt"])
    PAIRS = {"serdect::array::serialize_hex_lower_or_bin": "serdect::array::deserialize_hex_or_bin",
             "serdect::array::serialize_hex_upper_or_bin": "serdect::array::deserialize_hex_or_bin",
             "serdect::slice::serialize_hex_lower_or_bin": "serdect::slice::deserialize_hex_or_bin_vec",
             "serdect::slice::serialize_hex_upper_or_bin": "serdect::slice::deserialize_hex_or_bin_vec"}
    ctx.check(len(adts) >= 26, "TAB-serde", "workspace", "serde-types", "expected >= 26 serde wire types, found %d" % len(adts))
    for a in sorted(adts):
        d = serde_tab.describe(P, a)
        s, r = d["ser"], d["de"]
        ctx.check(s["fns"] > 0 and r["fns"] > 0, "TAB-serde", a, "both-directions", "%s has only one of Serialize/Deserialize" % short(a))
        adt = P.adts.get(a)
        decl = [x["name"] for x in adt["variants"][0]["fields"]] if adt and adt["kind"] == "Struct" else []
        if s["fields"] or r["names"]:
            wn = [n for n, _ in s["fields"]]
            ok = wn == r["names"] and len(wn) == len(r["seq"])
            ok = ok and [n for n in decl if n in wn] == wn          # declaration order
            skipped = [n for n in decl if n not in wn]
            zst = all("PhantomData" in x["ty"] for x in adt["variants"][0]["fields"] if x["name"] in skipped)
            for (n, ty), rty in zip(s["fields"], r["seq"]):
                wrapW, wrapR = "__SerializeWith" in (ty or ""), "__DeserializeWith" in (rty or "")
                if a == CORE + "Header" and n == "version":
                    continue  # reviewed: written as u8, read through version_deserialize (which reads a u8)
                if wrapW != wrapR or (not wrapW and ty != rty):
                    ok = False
            # optional fields: reviewed asymmetry min_signers of PublicKeyPackage (skip_serializing_if none <-> optional on read)
            opt = [n for n in r["names"] if n not in r["missing"]]
            if a == CORE + "keys::PublicKeyPackage":
                ok = ok and opt == ["min_signers"]
            elif a == CORE + "Header":
                pass
            else:
                ok = ok and not opt
            ctx.check(ok and zst, "TAB-serde", a, "fields-written==fields-read",
                      "%s: written fields %s, read (map) %s, read (seq) %d elements, undeclared/optional %s: a field is "
                      "written but not read, read but not written, or in a different order/type"
                      % (short(a), wn, r["names"], len(r["seq"]), opt), None, {"written": wn})
        elif s["inner"] or r["inner"]:
            si = [x for x in s["inner"] if not x.startswith("conv:")]
            ri = [x for x in r["inner"] if not x.startswith("conv:")]
            ok = bool(si) and bool(ri) and set(si) == set(ri) and (not r["seq"] or set(r["seq"]) == set(si))
            ctx.check(ok, "TAB-serde", a, "newtype-inner-type-agrees",
                      "%s: serialises as %s but deserialises as %s" % (short(a), si, ri))
        if s["codecs"] or r["codecs"]:
            ok = bool(s["codecs"]) and {PAIRS.get(c) for c in s["codecs"]} == set(r["codecs"])
            ctx.check(ok, "TAB-serde", a, "codec-pair",
                      "%s: writer codec(s) %s do not pair with reader codec(s) %s" % (short(a), s["codecs"], r["codecs"]))
    # manual PublicKeyPackage reader: visit_seq order == declaration order (already compared above through seq/names)
    # Identifier serde goes through the scalar wrapper and the checked constructor
    d = serde_tab.describe(P, CORE + "identifier::Identifier")
    ctx.check(any(x.startswith("conv:") for x in d["ser"]["inner"]) and
              any(ci and ci.get("name") == "try_from" for g in serde_tab.family(P, CORE + "identifier::Identifier", "de") for (_, _, ci) in g.calls()),
              "TAB-serde", CORE + "identifier::Identifier", "into/try_from-scalar-wrapper",
              "Identifier must serialise via Into<SerializableScalar> and deserialise via TryFrom<SerializableScalar> (zero check)")
