"""C15 — signing nonces are fresh, hedged, and derived exactly as the RFC prescribes."""
from ..lib import *
from ..terms import TermCx, fmt, short

CORE = "frost_core::"
R1 = CORE + "round1::"


def run(ctx):
    ctx.decided = ("Nonce::new fills a 32-byte buffer completely from the caller's rng and passes it unmodified, with the "
                   "signing share, to the nonce hash; the hash input is random_bytes || encoded share in that order; a "
                   "nonce pair uses two fill_bytes executions (hiding first, binding second); commitments are G times "
                   "the corresponding nonce; a batch draws one pair per iteration of 0..num_nonces and pushes nonces and "
                   "commitments of that pair; commit is preprocess(1).")
    ctx.undecided = "non-zero / distinctness consequences (probabilistic) and the quality of the random source."
    ctx.floor = 9
    rules(ctx)


def rules(ctx):
    P = ctx.prog
    f = ctx.anchor(R1 + "Nonce::<C>::new")
    if f:
        v = FnView.get(P, f)
        t = v.cx.local(0)
        good = is_call(t, name="nonce_generate_from_random_bytes") and t[2][0] == ("arg", 1)
        det = fmt(t)[:300]
        if good:
            buf = t[2][1]
            good = (buf[0] == "mut" and buf[1][0] == "repeat" and str(buf[1][2]).strip().startswith("32")
                    and buf[1][1] == ("const", "u8", 0))
            if good:
                ops = [o for o in buf[2]]
                fb = [o for o in ops if o[1] == "fill_bytes"]
                proj = [o for o in ops if o[1] in ("index_mut", "as_mut", "as_mut_slice", "deref_mut")]
                other = [o for o in ops if o not in fb and o not in proj]
                full = all(o[1] != "index_mut" or (o[2][0][0] == "agg" and (o[2][0][2] or "").endswith("RangeFull")) for o in proj)
                good = len(fb) == 1 and fb[0][2] == (("arg", 2),) and full and not other
        ctx.check(good, "DRAW", f.key, "32-bytes-from-rng-unmodified",
                  "Nonce::new must draw 32 bytes (full buffer) from the caller's rng and hash exactly that buffer with "
                  "the share: %s" % det, f.loc)
    f = ctx.anchor(R1 + "Nonce::<C>::nonce_generate_from_random_bytes")
    if f:
        v = FnView.get(P, f)
        t = unwrap_newtypes(v.cx.local(0))
        good = is_call(t, name="H3")
        if good:
            from ..seq import flatten
            comps = flatten(t[2][0])
            good = (len(comps) == 2 and comps[0] == ("arg", 2) and is_call(comps[1], name="serialize") and mentions(comps[1], arg(1))
                    and not mentions(comps[1], lambda s: s == ("arg", 2))
                    and {k for k in adaptor_inventory(f) if k not in LOOKUPS} == set())
        ctx.check(good, "SEQ", f.key, "H3(random_bytes||encoded-share)",
                  "the nonce must be H3(random_bytes || SerializeScalar(share)) in that order: %s" % fmt(t)[:300], f.loc)
    f = ctx.anchor(R1 + "SigningNonces::<C>::new")
    if f:
        v = FnView.get(P, f)
        t = v.cx.local(0)
        h, b = get_field(t, "hiding"), get_field(t, "binding")
        fb = lambda x: [s for s in subterms(x) if s[0] == "op" and s[1] == "fill_bytes"]
        good = len(fb(h)) == 1 and len(fb(b)) == 1
        if good:
            sh, sb = fb(h)[0][3], fb(b)[0][3]
            fr = lambda s: s[1][0] if s[0] == "inl" else s
            rpo = f.rpo()
            good = (fr(sh)[0] == f.key and fr(sb)[0] == f.key and rpo.get(fr(sh)[1], 0) < rpo.get(fr(sb)[1], 0)
                    and mentions(h, arg(1)) and mentions(b, arg(1)))
        ctx.check(good, "DRAW", f.key, "hiding-first-binding-second",
                  "the hiding nonce must come from the first draw and the binding nonce from the second, both hashed "
                  "with the same share", f.loc)
        # commitments of exactly these nonces
        cm = get_field(t, "commitments")
        good = linked_nonce(get_field(cm, "hiding"), h) and linked_nonce(get_field(cm, "binding"), b)
        ctx.check(good, "AGREE", f.key, "commitments==G*nonces", "the stored commitments must be G times the stored nonces", f.loc)
    f = ctx.anchor(R1 + "SigningNonces::<C>::from_nonces")
    if f:
        v = FnView.get(P, f)
        t = v.cx.local(0)
        cm = get_field(t, "commitments")
        good = (get_field(t, "hiding") == ("arg", 1) and get_field(t, "binding") == ("arg", 2)
                and linked_nonce(get_field(cm, "hiding"), ("arg", 1)) and linked_nonce(get_field(cm, "binding"), ("arg", 2)))
        ctx.check(good, "AGREE", f.key, "commitment-of-own-nonce",
                  "from_nonces must store (hiding, binding) as given and commit to G*hiding, G*binding respectively", f.loc)
    f = ctx.anchor(R1 + "preprocess")
    if f:
        reductions(ctx, f.key, adaptors={}, min_loops=0)
        preprocess_pairs(ctx, f)
    f = ctx.anchor(R1 + "commit")
    if f:
        v = FnView.get(P, f)
        t = v.cx.local(0)
        pp = [s for s in subterms(t) if is_call(s, name="preprocess")]
        good = bool(pp) and all(s[2][0] == ("const", "u8", 1) and s[2][1] == ("arg", 1) and s[2][2] == ("arg", 2) for s in pp) and \
            len({s[3] for s in pp}) == 1
        if not pp and t[0] == "agg" and t[1] == "tuple" and len(t[4]) == 2:
            # written out: one iteration of preprocess without the vectors
            n, c = t[4][0][1], t[4][1][1]
            good = (mentions(n, lambda s: s[0] == "op" and s[1] == "fill_bytes" and s[2] == (("arg", 2),))
                    and mentions(n, arg(1)) and get_field(n, "commitments") == c)
        ctx.check(good, "PROV", f.key, "commit==preprocess(1)", "commit must return the single pair of preprocess(1, secret, rng) "
                  "(or one fresh SigningNonces::new(secret, rng) with its own commitments)", f.loc)


def preprocess_pairs(ctx, f):
    """preprocess(n, share, rng) returns two sequences filled in lock-step, one pair per i in 0..n: the pair's nonces are drawn
    per item from the caller's rng and share, its commitments are those of the same nonces (loop of pushes or map+unzip)"""
    P = ctx.prog
    v = FnView.get(P, f)
    ps = paired_sequences(P, f, v, v.cx.local(0))
    src = ps["source"] if ps else None
    good = ps is not None and src[0] == "agg" and (src[2] or "").endswith("Range") and \
        dict(src[4]).get("start") == ("const", "u8", 0) and dict(src[4]).get("end") == ("arg", 1)
    ctx.check(good, "RED", f.key, "0..num_nonces", "preprocess must produce exactly one pair per i in 0..num_nonces: %s"
              % (fmt(src) if src else "no lock-step pair of sequences recognised"), f.loc)
    ctx.check(ps is not None, "RED", f.key, "both-vectors-pushed-each-iteration",
              "every iteration must add the pair's nonces and commitments to the two result sequences", f.loc)
    fb = [s_ for s_ in subterms(ps["first"]) if s_[0] == "op" and s_[1] == "fill_bytes"] if ps else []
    ctx.check(bool(fb) and all(site_is_per_item(f, ps["ctx"], s_[3]) and s_[2] == (("arg", 3),) for s_ in fb), "DRAW", f.key,
              "pair-drawn-inside-the-loop",
              "each pre-processed pair must be drawn per item from the caller's rng (a batch that draws once and clones reuses "
              "nonces)", f.loc)
    good = ps is not None and bool(fb) and mentions(ps["first"], arg(2)) and get_field(ps["first"], "commitments") == ps["second"]
    ctx.check(good, "PROV", f.key, "commitments-of-the-pushed-nonces",
              "the commitments of a pair must be those of the nonces of the same pair, derived from the caller's rng and "
              "share", f.loc)


def linked_nonce(commitment, nonce):
    c = unwrap_newtypes(commitment)
    n = unwrap_newtypes(nonce)
    return gen_times(c, lambda s: unwrap_newtypes(s) == n or strip_newtype_fields(s) == n or
                     strip_newtype_fields(s) == strip_newtype_fields(n))
