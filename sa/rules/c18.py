"""C18 — Taproot signatures are valid BIP-340 signatures for the BIP-341 output key (parity / tweak plumbing agreement)."""
from ..lib import *
from ..terms import TermCx, fmt, short
from ..seq import flatten
from .. import algebra
from ..algebra import Alg, Unanalysable, show, eadd
from .c01 import f0, kernel, eq_sides
from .c17 import ret_terms

TRC = "frost_secp256k1_tr::"
TR = "<frost_secp256k1_tr::Secp256K1Sha256TR as frost_core::traits::Ciphersuite>::"
CORE = "frost_core::"
NONE = ("agg", "adt", "core::option::Option", "None", ())


def neg_of(x):
    return lambda t: is_call(unwrap_newtypes(t), name="neg") and x(strip_newtype_fields(unwrap_newtypes(t)[2][0]))


def odd_of(elem_pred):
    """predicate core `y_is_odd(to_affine(elem))`"""
    return lambda c: is_call(c, name="y_is_odd") and is_call(c[2][0], name="to_affine") and elem_pred(c[2][0][2][0])


def arms_of_call_arg(ctx, key, callee, idx, what):
    """the two arms (by parity) of argument idx of the call to `callee` in function key"""
    f = ctx.anchor(key)
    if not f:
        return None
    v = FnView.get(ctx.prog, f)
    cs = v.calls_named(callee)
    if len(cs) != 1:
        ctx.violation("AGREE", key, what + ":call-missing", "expected exactly one call to %s in %s" % (callee, short(key)), f.loc)
        return None
    l = local_of_operand(cs[0][1]["args"][idx])
    l = trace_local(f, l) if l is not None else None
    r = phi_arms(f, v, l) if l is not None else None
    if r is None:
        # the selected value travels through a wrapper (`Cow::Borrowed(x)` / `Cow::Owned(f(x))` .. `.as_ref()`, a helper call): the
        # argument's term is still `phi(local: arm, arm)`; read the arms at that local
        T = v.call_args(cs[0][0])[idx]
        if isinstance(T, tuple) and T and T[0] == "phi" and T[1][0] == f.key:
            r = phi_arms(f, v, T[1][1])
    if r is None:
        ctx.violation("AGREE", key, what + ":not-two-armed",
                      "argument %d of %s in %s is not selected by a single parity test any more" % (idx, callee, short(key)), f.loc)
    return (f, v, cs[0], r)


def map_each(P, g, v, val, src, fn_of_item):
    """val is a map with one entry per entry of a source map matched by src, under the same key, whose value satisfies
    fn_of_item (a predicate over a term in ITEM.1): `.iter().map(|(k, v)| (*k, f(v))).collect()` or a loop of inserts"""
    m = mapping_of(P, g, v, val)
    return bool(m) and src(m["source"]) and m["key"] == ("field", ITEM, None, "0") and fn_of_item(m["val"])


def run(ctx):
    ctx.decided = ("parity plumbing: the signer negates both nonces iff the group commitment has odd y, the share check "
                   "negates the commitment share under the same predicate, and with these the signer's formula satisfies the "
                   "share check identically (predicate-symbol algebra); generate_nonce negates k and R together; every "
                   "EvenY impl tests the y of its own key / R and negates all components (the Signature one only R); every "
                   "Tweak impl derives t from x(P) and the root, normalises to even y first and adds t (t*G) to all "
                   "components; hooks call the normalisers; sign_with_tweak / aggregate_with_tweak pass the same root to "
                   "the same trait method; challenge and tweak preimages are the BIP-340/341 tagged hashes over x-only "
                   "coordinates.")
    ctx.undecided = "acceptance by an independent BIP-340/341 verifier; the eight parity cases as executions."
    ctx.floor = 27
    P = ctx.prog
    gc_elem = lambda t: strip_newtype_fields(t) == ("arg", 1) or t == ("field", ("arg", 1), "frost_core::GroupCommitment", "0")
    # 1. signer
    r = arms_of_call_arg(ctx, TR + "compute_signature_share", "compute_signature_share", 0, "signer-nonces")
    sign_ok = False
    if r and r[3]:
        f, v, c, (core, arms) = r
        neg = arms.get(True)   # y is odd
        pos = arms.get(False)
        good = odd_of(gc_elem)(core) and base_of(pos) == ("arg", 2)
        if good:
            good = neg_of(lambda x: x == ("field", ("arg", 2), "frost_core::round1::SigningNonces", "hiding"))(get_field(neg, "hiding")) and \
                neg_of(lambda x: x == ("field", ("arg", 2), "frost_core::round1::SigningNonces", "binding"))(get_field(neg, "binding"))
        a = v.call_args(c[0])
        good = good and a[1:] == (("arg", 3), ("arg", 4), ("arg", 5), ("arg", 6))
        sign_ok = good
        ctx.check(good, "AGREE", f.key, "negate-both-nonces-iff-R-odd",
                  "the Taproot signer must use (-d, -e) exactly when the group commitment has odd y and (d, e) otherwise, and "
                  "pass the remaining arguments to the core formula unchanged", f.loc)
    # 2. share check
    r = arms_of_call_arg(ctx, TR + "verify_share", "verify", 2, "commitment-share")
    ver_ok = False
    if r and r[3]:
        f, v, c, (core, arms) = r
        neg, pos = arms.get(True), arms.get(False)
        good = odd_of(gc_elem)(core) and base_of(pos) == ("arg", 4) and \
            neg_of(lambda x: x == ("arg", 4))(neg)
        a = v.call_args(c[0])
        good = good and a[0] == ("arg", 2) and a[1] == ("arg", 3) and a[3:] == (("arg", 5), ("arg", 6), ("arg", 7))
        ver_ok = good
        ctx.check(good, "AGREE", f.key, "negate-commitment-share-iff-R-odd",
                  "the Taproot share check must negate R_i exactly when the group commitment has odd y, and pass "
                  "(share, identifier, verifying share, lambda, challenge) through unchanged", f.loc)
    # 3. the two agree: z_i(p) satisfies G*z == R_i(p) + Y*c*lam with p*p = p
    if sign_ok and ver_ok:
        S = lambda n: ("scal", n)
        z = kernel(ctx, CORE + "round2::compute_signature_share",
                   [(f0(arg(1), "hiding", "0", "0"), S("d")), (f0(arg(1), "binding", "0", "0"), S("e")), (f0(arg(2), "0"), S("rho")),
                    (arg(3), S("lam")), (f0(arg(4), "signing_share", "0", "0"), S("s")), (f0(arg(5), "0"), S("c"))],
                   lambda f, v: get_field(get_field(v.cx.local(0), "share"), "0") if v.cx.local(0)[0] == "agg" else None, "z_i")
        sv = P.fns.get(CORE + "round2::SignatureShare::<C>::verify")
        sides = eq_sides(sv, FnView.get(P, sv)) if sv else None
        if z is not None and sides:
            lv = [(f0(arg(1), "share", "0"), ("scal", "z")), (f0(arg(3), "0"), ("elem", "Ri")), (f0(arg(4), "0", "0"), ("elem", "Y")),
                  (arg(5), ("scal", "lam")), (f0(arg(6), "0"), ("scal", "c"))]
            try:
                al = Alg(lv, idem=("p",))
                a, b = al.val(sides[0]), al.val(sides[1])
                diff = eadd(a[1], b[1], -1)
                one_m2p = algebra.padd(algebra.P(1), algebra.sym("p"), -2)
                env = {"d": ("scal", algebra.pmul(algebra.sym("d"), one_m2p)), "e": ("scal", algebra.pmul(algebra.sym("e"), one_m2p))}
                zp = ("scal", algebra.psubst(z[1], env, ("p",)))
                rip = ("elem", {"G": algebra.pmul(algebra.padd(algebra.sym("d"), algebra.pmul(algebra.sym("e"), algebra.sym("rho"))), one_m2p, ("p",))})
                env2 = {"z": zp, "Ri": rip, "Y": ("elem", {"G": algebra.sym("s")})}
                res = algebra.esubst(diff, env2, ("p",))
                ctx.check(not res, "AGREE", TR + "verify_share", "parity-adjusted-share-satisfies-parity-adjusted-check",
                          "with p = [R has odd y], the signer's z_i = %s does not satisfy G*z_i == (1-2p)*R_i + Y*c*lam: residue %s"
                          % (show(zp), show(("elem", res))), None, {"z_i(p)": show(zp)})
            except Unanalysable as e:
                ctx.violation("H", TR + "verify_share", "parity-kernel:unanalysable", str(e))
    # 4. generate_nonce
    f = ctx.anchor(TR + "generate_nonce")
    if f:
        v = FnView.get(P, f)
        r = phi_arms(f, v, 0)
        good = False
        if r:
            core, arms = r
            k = lambda t: is_call(t, name="random_nonzero") and t[2][0] == ("arg", 1)
            R = lambda t: gen_times(t, k)
            odd, even = arms.get(True), arms.get(False)
            good = (odd_of(R)(core) and odd and even and odd[0] == "agg" and even[0] == "agg"
                    and is_call(odd[4][0][1], name="neg") and k(odd[4][0][1][2][0]) and is_call(odd[4][1][1], name="neg") and R(odd[4][1][1][2][0])
                    and k(even[4][0][1]) and R(even[4][1][1]))
            ks = {s[3] for t in (odd, even) if t for s in subterms(t) if is_call(s, name="random_nonzero")}
            good = good and len(ks) == 1
        ctx.check(good, "AGREE", f.key, "(-k,-R)-iff-R-odd",
                  "Taproot generate_nonce must draw one k, compute R = G*k and return (-k, -R) iff R has odd y, (k, R) otherwise", f.loc)
    # 5. EvenY impls
    EV = [("frost_core::keys::KeyPackage<frost_secp256k1_tr::Secp256K1Sha256TR>", lambda s: f0(lambda b: b == s, "verifying_key", "element", "0"),
           {"signing_share": "neg", "verifying_share": "neg", "verifying_key": "neg", "identifier": "copy", "min_signers": "copy"}),
          ("frost_core::keys::PublicKeyPackage<frost_secp256k1_tr::Secp256K1Sha256TR>", lambda s: f0(lambda b: b == s, "verifying_key", "element", "0"),
           {"verifying_key": "neg", "verifying_shares": "mapneg", "min_signers": "copy"}),
          ("frost_core::verifying_key::VerifyingKey<frost_secp256k1_tr::Secp256K1Sha256TR>", lambda s: f0(lambda b: b == s, "element", "0"), {"element": "neg"}),
          ("frost_core::GroupCommitment<frost_secp256k1_tr::Secp256K1Sha256TR>", lambda s: f0(lambda b: b == s, "0"), {"0": "neg"}),
          ("frost_core::signature::Signature<frost_secp256k1_tr::Secp256K1Sha256TR>", lambda s: f0(lambda b: b == s, "R"), {"R": "neg", "z": "copy"}),
          ("frost_core::signing_key::SigningKey<frost_secp256k1_tr::Secp256K1Sha256TR>", None, {"scalar": "neg"})]
    for ty, keyel, comps in EV:
        hk = "<%s as frost_secp256k1_tr::keys::EvenY>::has_even_y" % ty
        ik = "<%s as frost_secp256k1_tr::keys::EvenY>::into_even_y" % ty
        h = ctx.anchor(hk)
        if h:
            t = FnView.get(P, h).cx.local(0)
            core, pos = pred_core(t)
            if keyel is not None:
                good = (not pos) and odd_of(keyel(("arg", 1)))(core)
            else:
                good = (not pos) and odd_of(lambda e: gen_times(e, f0(arg(1), "scalar")))(core)
            ctx.check(good, "AGREE", hk, "even==!y_is_odd(own key point)",
                      "has_even_y of %s must test the y coordinate of its own key / commitment point: %s" % (short(ty), fmt(t)[:160]), h.loc)
        g = ctx.anchor(ik)
        if g:
            v = FnView.get(P, g)
            good = False
            det = ""
            from ..paths import function_cases, Unbounded
            hterm = strip_sites(FnView.get(P, h).cx.local(0)) if h else None
            own_even = lambda x: (is_call(x, name="has_even_y") and x[2][0] == ("arg", 1)) or (hterm is not None and strip_sites(x) == hterm)
            try:
                cases = function_cases(P, g)
            except Unbounded as e:
                cases = []
                det = str(e)
            even_vals, odd_vals, undecided = [], [], 0
            seen = set()
            for c in cases:
                given = [fa[2] for fa in c["facts"] if fa[0] == "succ" and fa[1] == ("arg", 2)]
                dec = None
                for fa in c["facts"]:
                    if fa[0] != "cond":
                        continue
                    kind, X, holds = fa[1], fa[2], fa[4]
                    full = X if kind == "other" else None
                    if full is None:
                        continue
                    core_, pos_ = pred_core(full)
                    val = holds if pos_ else (not holds)
                    if is_call(core_, name="unwrap_or_else") and core_[2][0] == ("arg", 2) and core_[2][1][0] == "closure":
                        body = closure_body(P, core_[2][1], {})
                        if body is not None and own_even(body):
                            dec = ("either", val)
                    elif given == [True] and core_ == ("some", ("arg", 2)):
                        dec = ("given", val)
                    elif given == [False] and (own_even(full) and (holds,) or own_even(core_) and (val,)):
                        dec = ("own", holds if own_even(full) else val)
                if dec is None:
                    undecided += 1
                    continue
                seen.add(dec)
                (even_vals if dec[1] else odd_vals).append(c["value"])
            covered = ({("either", True), ("either", False)} <= seen) or \
                ({("given", True), ("given", False), ("own", True), ("own", False)} <= seen)
            good = bool(cases) and not undecided and covered and all(base_of(x) == ("arg", 1) for x in even_vals) and bool(odd_vals)
            if not good:
                det += " decisions seen: %s, undecided paths: %d" % (sorted(seen), undecided)
            for odd in (odd_vals if good else []):
                if True:
                    for comp, how in comps.items():
                        val = get_field(odd, comp) if odd[0] == "agg" else None
                        if val is None and is_call(odd, name="expect"):
                            # SigningKey: from_scalar(-s).expect(..)
                            inner = odd[2][0]
                            val = inner[2][0] if is_call(inner, name="from_scalar") else None
                        if val is None and odd[0] == "agg" and len(odd[4]) == 1:
                            val = odd[4][0][1]
                        src = lambda x, comp=comp: strip_newtype_fields(x) == ("field", ("arg", 1), ty.split("<")[0], comp) or \
                            x == ("field", ("arg", 1), ty.split("<")[0], comp) or \
                            (len(comps) == 1 and strip_newtype_fields(x) == ("arg", 1))
                        if how == "neg":
                            ok1 = val is not None and neg_of(src)(val)
                        elif how == "copy":
                            ok1 = val is not None and src(val)
                        else:
                            ok1 = val is not None and map_each(
                                P, g, FnView.get(P, g), val, lambda s, comp=comp: mentions(s, lambda u: u == ("field", ("arg", 1), ty.split("<")[0], comp)),
                                neg_of(lambda x: x == ("field", ITEM, None, "1")))
                        if not ok1:
                            good = False
                            det += " %s:%s" % (comp, fmt(val)[:80] if val else "?")
            ctx.check(good, "AGREE", ik, "negate-all-components-iff-odd",
                      "into_even_y of %s must return self when even (or when told so) and otherwise negate every component "
                      "(%s);%s" % (short(ty), comps, det), g.loc)
    # 6. Tweak impls
    for ty, comps in (("frost_core::keys::KeyPackage<frost_secp256k1_tr::Secp256K1Sha256TR>",
                       {"signing_share": "t", "verifying_share": "tG", "verifying_key": "tG", "identifier": "copy", "min_signers": "copy"}),
                      ("frost_core::keys::PublicKeyPackage<frost_secp256k1_tr::Secp256K1Sha256TR>",
                       {"verifying_key": "tG", "verifying_shares": "maptG", "min_signers": "copy"})):
        key = "<%s as frost_secp256k1_tr::keys::Tweak>::tweak" % ty
        g = ctx.anchor(key)
        if not g:
            continue
        ts = ret_terms(P, g)
        good = len(ts) == 1
        det = ""
        if good:
            t = ts[0]
            adt = ty.split("<")[0]
            even = lambda x: is_call(x, name="into_even_y") and x[2][0] == ("arg", 1) and x[2][1] == NONE
            # x(P) == x(-P): the tweak may be derived from the key before or after normalisation
            tw = lambda x: is_call(x, name="tweak") and x[1] == TRC + "tweak" and x[2][1] == ("arg", 2) and \
                (lambda k: k[0] == "field" and k[3] == "verifying_key" and (k[1] == ("arg", 1) or even(k[1])))(strip_newtype_fields(x[2][0]))
            tG = lambda x: gen_times(x, tw)
            for comp, how in comps.items():
                val = get_field(t, comp)
                src = lambda x, comp=comp: x[0] == "field" and x[3] == comp and even(x[1])
                u = unwrap_newtypes(val)
                if how == "copy":
                    ok1 = src(val)
                elif how in ("t", "tG"):
                    pr = tw if how == "t" else tG
                    ok1 = is_call(u, name="add") and ((src(strip_newtype_fields(u[2][0])) and pr(u[2][1])) or (src(strip_newtype_fields(u[2][1])) and pr(u[2][0])))
                else:
                    def shifted(x):
                        cu = unwrap_newtypes(x)
                        return is_call(cu, name="add") and len(cu[2]) == 2 and \
                            ((strip_newtype_fields(cu[2][0]) == ("field", ITEM, None, "1") and tG(cu[2][1])) or
                             (strip_newtype_fields(cu[2][1]) == ("field", ITEM, None, "1") and tG(cu[2][0])))
                    ok1 = map_each(P, g, FnView.get(P, g), val, lambda s: mentions(s, src), shifted)
                if not ok1:
                    good = False
                    det += " %s" % comp
        ctx.check(good, "AGREE", key, "tweak-after-normalisation-on-all-components",
                  "Tweak for %s must compute t from (x of the internal key, root), normalise to even y, then add t (resp. t*G) "
                  "to every component; mismatch in:%s" % (short(ty), det), g.loc)
    # linked pairs for the key package (s+t <-> Y+tG): co-dependence
    g = P.fns.get("<frost_core::keys::KeyPackage<frost_secp256k1_tr::Secp256K1Sha256TR> as frost_secp256k1_tr::keys::Tweak>::tweak")
    if g:
        ts = ret_terms(P, g)
        if ts:
            key_package_consistent(ctx, g, ts[0], what="(s+t, Y+t*G)")
    # 7. hooks
    ev = lambda i: (lambda x: is_call(x, name="into_even_y") and x[2][0] == ("arg", i) and x[2][1] == NONE)
    for hook, want in (("pre_sign", (arg(1), arg(2), ev(3))), ("pre_aggregate", (arg(1), arg(2), ev(3))), ("pre_verify", (arg(1), ev(2), ev(3)))):
        g = ctx.anchor(TR + hook)
        if g:
            ts = ret_terms(P, g)
            good = len(ts) == 1 and ts[0][0] == "agg" and len(ts[0][4]) == 3 and all(w(x) for w, (_, x) in zip(want, ts[0][4]))
            ctx.check(good, "AGREE", TR + hook, "normalises-key-material", "%s must return its arguments with the key material (and R) normalised to even y" % hook, g.loc)
    g = ctx.anchor(TR + "single_sign")
    if g:
        ts = ret_terms(P, g)
        ctx.check(len(ts) == 1 and is_call(ts[0], name="default_sign") and ev(1)(ts[0][2][0]) and ts[0][2][1:] == (("arg", 2), ("arg", 3)), "AGREE",
                  TR + "single_sign", "sign-with-even-key", "single_sign must sign with the even-y normalised key", g.loc)
    # 8. tweak entry points
    g = ctx.anchor(TRC + "round2::sign_with_tweak")
    if g:
        ts = ret_terms(P, g)
        good = len(ts) == 1 and ts[0][0] == "call" and ts[0][1] == CORE + "round2::sign" and ts[0][2][:2] == (("arg", 1), ("arg", 2)) and \
            is_call(ts[0][2][2], name="tweak") and ts[0][2][2][2] == (("arg", 3), ("arg", 4))
        ctx.check(good, "CALL", g.key, "core-sign(tweak(key package, root))", "sign_with_tweak must sign with Tweak::tweak(key package, root)", g.loc)
    g = ctx.anchor(TRC + "aggregate_with_tweak")
    if g:
        ts = ret_terms(P, g)
        good = len(ts) == 1 and ts[0][0] == "call" and ts[0][1] == CORE + "aggregate_custom" and ts[0][2][:2] == (("arg", 1), ("arg", 2)) and \
            is_call(ts[0][2][2], name="tweak") and ts[0][2][2][2] == (("arg", 3), ("arg", 4)) and ts[0][2][3][0] == "agg" and ts[0][2][3][3] == "FirstCheater"
        ctx.check(good, "CALL", g.key, "core-aggregate(tweak(public package, root))",
                  "aggregate_with_tweak must aggregate with Tweak::tweak(public key package, root) (same trait method, same root)", g.loc)
    # 9. preimages
    g = ctx.anchor(TR + "challenge")
    if g:
        ts = ret_terms(P, g)
        from ..hashes import find_digest, digest_nf
        chain, nf = find_digest(P, unwrap_newtypes(ts[0])) if len(ts) == 1 else (None, None)
        if nf is None and len(ts) == 1:
            for s_ in subterms(ts[0]):
                if is_call(s_) and digest_nf(P, s_) is not None:
                    nf = digest_nf(P, s_)
                    break
        tagd = lambda p_: (lambda d: d is not None and d["algo"] == "sha2::Sha256" and len(d["parts"]) == 1 and
                           is_call(d["parts"][0], name="as_bytes") and d["parts"][0][2][0] == ("const", "&str", '"BIP0340/challenge"'))(digest_nf(P, p_))
        good = nf is not None and nf["algo"] == "sha2::Sha256" and len(nf["parts"]) == 5 and tagd(nf["parts"][0]) and tagd(nf["parts"][1])
        if good:
            parts = nf["parts"][2:]
        ctx.check(good, "SEQ", g.key, "tagged(x(R)||x(P)||msg)", "BIP-340: e = tagged_hash(\"BIP0340/challenge\", bytes(R) || bytes(P) || m) over x-only coordinates", g.loc)
    g = ctx.anchor(TRC + "tweak")
    if g:
        v = FnView.get(P, g)
        # path classes by the presence of a merkle root: the updates applied to the TapTweak hasher on each
        some_e = {e for (e, fa) in v.facts if fa[0] == "succ" and fa[1] == ("arg", 2) and fa[2]}
        none_e = {e for (e, fa) in v.facts if fa[0] == "succ" and fa[1] == ("arg", 2) and not fa[2]}
        xP = lambda x: is_call(x, name="x") and is_call(x[2][0], name="to_affine") and x[2][0][2][0] == ("arg", 1)
        tap = lambda h: mentions(h, lambda s: is_call(s, name="tagged_hash") and s[2][0] == ("const", "&str", '"TapTweak"'))
        with_root = calls_on_paths(g, v, none_e, "update")
        without = calls_on_paths(g, v, some_e, "update")
        good = bool(some_e) and bool(none_e) and with_root is not None and without is not None
        if good:
            good = [a[1] for (_, a) in without] == [a[1] for (_, a) in without if xP(a[1])] and len(without) == 1 and \
                len(with_root) == 2 and xP(with_root[0][1][1]) and with_root[1][1][1] == ("some", ("arg", 2)) and \
                all(tap(a[0]) for (_, a) in without + with_root)
            t = v.cx.local(0)
            alts = t[2] if t[0] == "phi" else (t,)
            fin = [v.call_args(bb) for (bb, tt, ci) in g.calls() if ci and ci.get("name") == "hasher_to_scalar"]
            good = good and all(tap(a) for a in alts) and bool(fin) and all(tap(a[0]) for a in fin) and \
                len([1 for (b, k, _) in ret_writes(g)]) == len(fin)
        ctx.check(good, "SEQ", g.key, "tagged(x(P)[||root])", "BIP-341: t = tagged_hash(\"TapTweak\", bytes(P) [|| merkle_root])", g.loc)
