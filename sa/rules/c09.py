"""C09 — no delivery history lets honest parties silently diverge (narrow claim: the acceptance predicate's reads)."""
from ..lib import *
from ..terms import TermCx, fmt, short
from .c04 import next_item, tfield
from . import c07, c08

CORE = "frost_core::"
DKG = CORE + "keys::dkg::"


def run(ctx):
    ctx.decided = ("the acceptance predicate for a round-two share reads exactly (own identifier of the round-two secret "
                   "package, the share filed under l in round2_packages, the commitment filed under the same l in "
                   "round1_packages), on every iteration and before accumulation; the sender sets of the two maps coincide "
                   "and exclude the recipient; the public key package is derived from that same round1_packages argument "
                   "plus the stored own commitment and from nothing else; the returned key package is internally "
                   "consistent.")
    ctx.undecided = ("the quantifier over delivery histories / concurrent runs and agreement between participants: a "
                     "model-checking question outside static analysis.")
    ctx.floor = 12
    P = ctx.prog
    p2 = ctx.anchor(DKG + "part2")
    if p2:
        # a contribution made for a run with another threshold is refused when it is received
        c08.peer_threshold_check(ctx, p2, "peer-commitment-length==own-threshold")
    p3 = ctx.anchor(DKG + "part3")
    if p3:
        v = FnView.get(P, p3)
        c08.own_id_guard(ctx, p3, "own-identifier-not-a-round1-sender", arg(2), arg(1))
        c08.own_id_guard(ctx, p3, "own-identifier-not-a-round2-sender", arg(3), arg(1))
        chk = lambda item: succ_fact(c08.share_check(item, arg(1), arg(2)))
        lp = forall_loop(ctx, p3, "LOOPDOM", "accept(share_l)==verify(own id, share_l, commitment_l)", lambda s: s == ("arg", 3),
                         [("SecretShare.verify()?", chk)], require_fail_err=False)
        if lp is not None:
            item = lp["item"]
            takes_share = lambda ci, a: bool(ci) and ci.get("name") == "add" and \
                any(mentions(x, tfield(item, 1)) for x in a)
            ctx.check(used_after_check(lp, takes_share), "LOOPDOM", p3.key, "accepted-before-used",
                      "a round-two share is used before / without its acceptance check", p3.loc)
        # sender sets coincide
        from .c08 import senders_coincide
        senders_coincide(ctx, p3, "round1-senders-subset-of-round2-senders", "round2-senders-subset-of-round1-senders")
    c07.part3_wiring(ctx)
