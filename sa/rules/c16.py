"""C16 — all secret randomness is drawn fresh from the caller's source and nowhere else."""
from ..lib import *
from ..terms import TermCx, fmt, short
from .. import draws, facts, mir
from ..mir import callee_of

CORE = "frost_core::"

# reviewed draw summaries: operation -> {primitive draw: {multiplicity: count}} (engine E, draws.draw_summary).  The
# summary follows the caller's rng through every forwarding call down to the primitive draws (RngCore::fill_bytes,
# Field::random of the ciphersuite) and multiplies by the enclosing loops, so it does not depend on how a draw is routed.
RETRY = "retry(random_nonzero)"
DRAW_SUMMARY = {
    CORE + "round1::Nonce::<C>::new": {"Rng::fill_bytes": {"1": 1}},
    CORE + "round1::SigningNonces::<C>::new": {"Rng::fill_bytes": {"1": 2}},
    CORE + "round1::preprocess": {"Rng::fill_bytes": {"n(arg1)": 2}},
    CORE + "round1::commit": {"Rng::fill_bytes": {"1": 2}},
    CORE + "random_nonzero": {"Field::random": {RETRY: 1}},
    CORE + "keys::generate_coefficients": {"Field::random": {"n(arg1)": 1}},
    CORE + "signing_key::SigningKey::<C>::new": {"Field::random": {RETRY: 1}},
    CORE + "signing_key::SigningKey::<C>::sign": {"Field::random": {RETRY: 1}},
    CORE + "signing_key::SigningKey::<C>::default_sign": {"Field::random": {RETRY: 1}},
    CORE + "traits::Ciphersuite::generate_nonce": {"Field::random": {RETRY: 1}},
    CORE + "traits::Ciphersuite::single_sign": {"Field::random": {RETRY: 1}},
    "<frost_secp256k1_tr::Secp256K1Sha256TR as frost_core::traits::Ciphersuite>::generate_nonce": {"Field::random": {RETRY: 1}},
    "<frost_secp256k1_tr::Secp256K1Sha256TR as frost_core::traits::Ciphersuite>::single_sign": {"Field::random": {RETRY: 1}},
    CORE + "keys::generate_with_dealer": {"Field::random": {RETRY: 1, "n(Sub((arg2 as usize), 1))": 1}},
    CORE + "keys::split": {"Field::random": {"n(Sub((arg3 as usize), 1))": 1}},
    CORE + "keys::dkg::part1": {"Field::random": {RETRY: 2, "n(Sub((arg3 as usize), 1))": 1}},
    CORE + "keys::dkg::compute_proof_of_knowledge": {"Field::random": {RETRY: 1}},
    CORE + "keys::refresh::compute_refreshing_shares": {"Field::random": {"n(Sub((some(arg1.min_signers) as usize), 1))": 1}},
    CORE + "keys::refresh::refresh_dkg_part1": {"Field::random": {RETRY: 1, "n(Sub((arg3 as usize), 1))": 1}},
    CORE + "keys::repairable::repair_share_part1": {"Field::random": {"n(Sub(slice::len(arg1), 1))": 1}},
    CORE + "batch::Verifier::<C>::verify": {"Field::random": {"each(arg1.signatures)": 1}},
    "frost_rerandomized::Randomizer::<C>::new": {"Field::random": {"1": 1}},
    "frost_rerandomized::Randomizer::<C>::new_from_commitments": {"Rng::fill_bytes": {"1": 1}},
    "frost_rerandomized::RandomizedParams::<C>::new": {"Field::random": {"1": 1}},
    "frost_rerandomized::RandomizedParams::<C>::new_from_commitments": {"Rng::fill_bytes": {"1": 1}},
}

# secret outputs that must depend on the caller's rng: function -> list of (description, predicate on return term)
def mentions_draw(name, rngp):
    return lambda t: mentions(t, lambda s: (is_call(s, name=name) and any(mentions(a, rngp) for a in s[2]))
                              or (s[0] == "op" and s[1] == name and any(mentions(a, rngp) for a in s[2])))


def fresh_draw_elements(P, f, v, rt, rng_arg):
    """every element of the vector rt is its own `Field::random(caller's rng)` — the draw is evaluated once per element: in the
    closure of `repeat_with(..)` / `.map(..)`, or in the body of the loop that pushes it (a draw hoisted out of the traversal and
    pushed n times is one sample repeated)"""
    from ..seq import _is_empty_ctor
    is_draw = lambda x: is_call(x, name="random") and "Field" in x[1] and len(x[2]) == 1 and base_of(x[2][0]) == ("arg", rng_arg)
    t = rt
    if is_call(t, name="collect") and t[2]:
        x = t[2][0]
        while is_call(x) and x[1].rsplit("::", 1)[-1] in ("take", "by_ref") and x[2]:
            x = x[2][0]
        if is_call(x, name="repeat_with") and len(x[2]) == 1:
            body = apply_callable(P, x[2][0], [])
            return body is not None and is_draw(body)
        m = mapping_of(P, f, v, t)
        # the per-element closure of a map: evaluated once per element by construction
        return bool(m) and m["key"] is None and is_draw(m["val"]) and site_bb(m["val"][3], f) is None
    if t[0] == "mut" and _is_empty_ctor(t[1]):
        ops = [o for o in t[2] if o[1] != "reserve"]
        if len(ops) != 1 or ops[0][1] != "push" or len(ops[0][2]) != 1 or not is_draw(ops[0][2][0]):
            return False
        pb, db = site_bb(ops[0][3], f), site_bb(ops[0][2][0][3], f)
        inner = [lp for lp in f.loops() if pb is not None and pb in lp["body"]]
        if not inner or db is None:
            return False
        lp = min(inner, key=lambda l: len(l["body"]))
        return db in lp["body"]          # drawn in the same (innermost) loop body that pushes it
    return False


def per_coefficient_draw(ctx):
    P = ctx.prog
    f = ctx.anchor(CORE + "keys::generate_coefficients")
    if f:
        v = FnView.get(P, f)
        rt = v.cx.local(0)
        got = draws.normal_form(draws.draw_summary(P, f, {}))
        count_ok = got == {"Field::random": {"n(arg1)": 1}}
        ctx.check(count_ok and fresh_draw_elements(P, f, v, rt, 2), "DRAW-item", f.key, "one-draw-per-coefficient",
                  "generate_coefficients must produce each of its `size` coefficients by its own Field::random(rng) call (no draw "
                  "hoisted out of the traversal, no repetition of one sample): draws %s" % got, f.loc)


def run(ctx):
    ctx.decided = ("no call or cast in workspace library code reaches an entropy source other than a caller-supplied "
                   "CryptoRng (getrandom/rand/OsRng/time/HashMap RandomState/addresses): expected count 0, with a "
                   "positive control that must fire on every run; the count of primitive draws, as a term over loop multiplicities (fill_bytes / Field::random, multiplied by the enclosing loops and instantiated through every forwarding call) of each rng-consuming operation equals the reviewed summary; per-item draws sit inside the per-item construct (closure of the "
                   "coefficient generator, batch loop, retry loop, pre-processing loop); distinct roles come from "
                   "distinct call-site executions; every secret output of the entry points depends on the rng; the six "
                   "Field::random implementations forward the given rng.")
    ctx.undecided = "statistical independence, 'every value changes with the source output', distinctness within a call."
    ctx.floor = 45
    P = ctx.prog
    # (i) ownership: zero entropy sources in the workspace, positive control fires
    src = [s for s in draws.entropy_sources(P)]
    for (f, what, bb) in src:
        ctx.violation("DRAW-own", f.key, what, "workspace code reaches an entropy source other than the caller's rng: %s "
                      "in %s" % (what, short(f.key)), loc_of(f, bb))
    if not src:
        ctx.ok("DRAW-own", "workspace", "no-foreign-entropy-source", {"functions_scanned": sum(1 for f in P.fns.values() if f.has_body)})
    try:
        FP = mir.Program(facts.fixture_facts())
        fx = {w.split(":")[0] + ":" + f.key for (f, w, bb) in draws.entropy_sources(FP)}
        need = {"call:fixtures::clock_seed", "call:fixtures::hash_order", "cast:fixtures::address_entropy"}
        ctx.check(need <= fx, "DRAW-own", "fixtures", "positive-control",
                  "the entropy-source rule did not fire on the positive controls %s (fired on %s): the rule is broken"
                  % (sorted(need - fx), sorted(fx)))
    except facts.FactError as e:
        ctx.violation("DRAW-own", "fixtures", "positive-control", "fixture crate could not be analysed: %s" % e)
    # (ii) draw summaries: how many primitive draws every rng-consuming operation makes, through all forwarding calls
    seen_fns = set()
    memo = {}
    core_by_name = {}
    for k in DRAW_SUMMARY:
        if k.startswith(CORE):
            core_by_name[k[len(CORE):]] = k
    for f in P.fns.values():
        if not f.has_body or not f.crate.startswith("frost") or f.kind == "Closure":
            continue
        if not draws.rng_params(f):
            continue
        got = draws.normal_form(draws.draw_summary(P, f, memo))
        if f.key in DRAW_SUMMARY:
            seen_fns.add(f.key)
            exp = DRAW_SUMMARY[f.key]
            ctx.check(got == exp, "DRAW-site", f.key, "draws",
                      "primitive draws made with the caller's rng by %s are %s, reviewed: %s (a draw was added, removed, "
                      "duplicated, hoisted out of its loop or its count now follows another quantity)" % (short(f.key), got, exp),
                      f.loc, {"found": got})
            continue
        if (f.j.get("trait") or "").endswith("::Field") or f.name == "random" and "Field" in f.key:
            # the ciphersuite's scalar sampler: exactly one forwarding call to the curve library's sampler
            ctx.check(len(got) == 1 and list(got.values())[0] == {"1": 1}, "DRAW-site", f.key, "wrapper-forwards-rng-once",
                      "Field::random of %s must hand the caller's rng to exactly one sampler call (found %s)" % (short(f.key), got), f.loc)
            continue
        tail = f.key.split("::", 1)[1] if "::" in f.key else f.key
        core = core_by_name.get(tail)
        if f.crate not in ("frost_core", "frost_rerandomized") and core:
            # thin ciphersuite wrappers: the same draws as the core function of the same name, arguments in order
            cs = draws.normal_form(draws.draw_summary(P, P.fns[core], memo)) if core in P.fns else None
            ctx.check(got == cs, "DRAW-site", f.key, "wrapper-forwards-rng-once",
                      "ciphersuite wrapper %s must make exactly the draws of the core function of the same name (found %s, "
                      "core: %s)" % (short(f.key), got, cs), f.loc)
            continue
        ctx.note("DRAW-site", f.key, "rng consumer outside the reviewed table (covered through its callers' summaries): %s" % got)
    for k in DRAW_SUMMARY:
        if k not in seen_fns:
            ctx.violation("DRAW-site", k, "anchor-missing", "reviewed draw site %s not found" % k)
    # (iii) per-item draws inside the per-item construct
    per_coefficient_draw(ctx)
    from .c11 import repair_draw_count
    repair_draw_count(ctx)
    f = ctx.anchor(CORE + "random_nonzero")
    if f:
        lr = loop_report(P, f)
        dr = [bb for (bb, t, ci) in f.calls() if ci and ci.get("name") == "random"]
        ctx.check(len(lr) == 1 and len(dr) == 1 and dr[0] in lr[0]["body"], "DRAW-item", f.key, "redraw-in-retry-loop",
                  "random_nonzero must draw again inside its retry loop", f.loc)
        v = FnView.get(P, f)
        refusal(ctx, f, "SEP", "returns-only-nonzero",
                [("!=zero", cmp_fact("eq", lambda t: is_call(t, name="random"), lambda t: is_call(t, name="zero"), True))],
                {b for (b, k, _) in ret_writes(f)}, require_fail_err=False)
    f = ctx.anchor(CORE + "round1::preprocess")
    if f:
        v = FnView.get(P, f)
        ps = paired_sequences(P, f, v, v.cx.local(0))
        fb = [s_ for s_ in subterms(ps["first"]) if s_[0] == "op" and s_[1] == "fill_bytes"] if ps else []
        ctx.check(bool(fb) and all(site_is_per_item(f, ps["ctx"], s_[3]) for s_ in fb), "DRAW-item", f.key, "pair-drawn-per-iteration",
                  "preprocess must draw a fresh nonce pair per item (a batch that draws once and clones reuses "
                  "nonces)", f.loc)
    # batch loop: decided under C19 as well; repeat here for the property's own evidence
    f = ctx.anchor(CORE + "batch::Verifier::<C>::verify")
    if f:
        from .c19 import batch_blinder
        _msm, _sc, _pt, _drawn, good_ = batch_blinder(P, f, FnView.get(P, f))
        ctx.check(good_, "DRAW-item", f.key, "blinder-drawn-per-item",
                  "the batch blinder must be drawn inside the per-item loop", f.loc)
    # (iv) distinct roles from distinct call-site executions + secret outputs depend on the rng
    f = ctx.anchor(CORE + "keys::dkg::part1")
    if f:
        v = FnView.get(P, f)
        rng = arg(4)
        oks = ok_values(f, v)
        good = len(oks) == 1
        if good:
            t = oks[0]
            key = [s for s in subterms(t) if is_call(s, name="random_nonzero") or (is_call(s, name="new") and "SigningKey" in s[1])]
            coef = [s for s in subterms(t) if is_call(s, name="generate_coefficients")]
            pok = [s for s in subterms(t) if is_call(s, name="compute_proof_of_knowledge") or is_call(s, name="generate_nonce")]
            good = bool(key) and bool(coef) and bool(pok) and all(any(mentions(a, rng) for a in s[2]) for s in key + coef + pok)
            sites = {s[3] for s in key} | {s[3] for s in coef} | {s[3] for s in pok}
            good = good and len({s[3] for s in key}) >= 1 and not ({s[3] for s in key} & {s[3] for s in coef})
        ctx.check(good, "DRAW-role", f.key, "key,coefficients,proof-nonce-from-three-draws",
                  "part1's secret key, polynomial coefficients and proof-of-knowledge nonce must come from three "
                  "separate draws of the caller's rng, and the returned packages must depend on them", f.loc)
    f = ctx.anchor(CORE + "round1::SigningNonces::<C>::new")
    if f:
        v = FnView.get(P, f)
        t = v.cx.local(0)
        h, b = get_field(t, "hiding"), get_field(t, "binding")
        fb = lambda x: [s for s in subterms(x) if s[0] == "op" and s[1] == "fill_bytes"]
        good = len(fb(h)) == 1 and len(fb(b)) == 1 and fb(h)[0][3] != fb(b)[0][3] and \
            fb(h)[0][2] == (("arg", 2),) and fb(b)[0][2] == (("arg", 2),)
        ctx.check(good, "DRAW-role", f.key, "hiding-and-binding-from-two-draws",
                  "hiding and binding nonce must each come from their own fill_bytes execution on the caller's rng", f.loc)
    # secret outputs depend on the rng (entry-point table)
    ENTRY = [
        (CORE + "keys::generate_with_dealer", 4, ["random_nonzero|new", "split|generate_coefficients"]),
        (CORE + "keys::split", 5, ["generate_coefficients"]),
        (CORE + "keys::refresh::compute_refreshing_shares", 3, ["generate_coefficients"]),
        (CORE + "keys::refresh::refresh_dkg_part1", 4, ["generate_coefficients", "compute_proof_of_knowledge|generate_nonce"]),
        (CORE + "keys::repairable::repair_share_part1", 3, ["generate_coefficients"]),
        (CORE + "keys::dkg::compute_proof_of_knowledge", 4, ["generate_nonce"]),
        (CORE + "signing_key::SigningKey::<C>::new", 1, ["random_nonzero"]),
        (CORE + "signing_key::SigningKey::<C>::default_sign", 2, ["generate_nonce"]),
        ("frost_rerandomized::Randomizer::<C>::new_from_commitments", 1, ["fill_bytes"]),
    ]
    for key, rngi, needs in ENTRY:
        f = ctx.anchor(key)
        if not f:
            continue
        v = FnView.get(P, f)
        rets = []
        for (b, k, rv) in ret_writes(f):
            if k == "ok":
                rets.append(v.cx.operand(rv["ops"][0]))
            elif k == "call":
                rets.append(v.cx.call(rv, (f.key, b)))
            elif k == "other":
                rets.append(v.cx.rvalue(rv, (f.key, b, 0)))
        good = bool(rets)
        for need in needs:
            alts = need.split("|")
            good = good and any(any(mentions_draw(a, arg(rngi))(t) for a in alts) for t in rets)
        ctx.check(good, "COVER", key, "secret-output-depends-on-rng",
                  "the value returned by %s does not depend on a draw (%s) from the caller's rng" % (short(key), needs), f.loc)
    # Field::random impls forward the rng
    n = 0
    for k, f in P.fns.items():
        if k.endswith(" as frost_core::traits::Field>::random") and f.has_body:
            n += 1
            t = FnView.get(P, f).cx.local(0)
            ctx.check(is_call(t, name="random") and t[2] and t[2][0] == ("arg", 1) and not t[1].startswith("frost"),
                      "DRAW-fwd", k, "forwards-rng", "Field::random must return the curve library's Scalar::random(rng) of "
                      "the given rng (found %s)" % fmt(t), f.loc)
    ctx.check(n == 6, "DRAW-fwd", "workspace", "six-Field::random-impls", "expected 6 Field::random implementations, found %d" % n)
    # seed length of the randomizer: scalar encoding length
    f = ctx.anchor("frost_rerandomized::Randomizer::<C>::new_from_commitments")
    if f:
        v = FnView.get(P, f)
        oks = ok_values(f, v)
        good = False
        if len(oks) == 1 and oks[0][0] == "agg":
            seed = oks[0][4][1][1]
            good = (seed[0] == "mut" and is_call(seed[1], name="from_elem") and
                    mentions(seed[1][2][1], lambda s: is_call(s, name="len")) and mentions(seed[1][2][1], lambda s: is_call(s, name="serialize"))
                    and any(o[1] == "fill_bytes" and o[2] == (("arg", 1),) for o in seed[2]))
            # the randomizer is regenerated from that very seed
            r = oks[0][4][0][1]
            good = good and mentions(r, lambda s: is_call(s, name="regenerate_from_seed_and_commitments") and base_of(s[2][0]) == base_of(seed)
                                     and s[2][1] == ("arg", 2))
        ctx.check(good, "DRAW-item", f.key, "seed-of-scalar-length-from-rng",
                  "the randomizer seed must be a scalar-length buffer filled by the caller's rng, returned unchanged and "
                  "used to derive the randomizer", f.loc)
