"""C01 — any t-or-more honest signers produce a signature that verifies as a plain one (structure + kernel agreement)."""
from ..lib import *
from ..terms import TermCx, fmt, short
from .. import algebra
from ..algebra import Alg, Unanalysable, is_zero, show, padd, eadd
from .c04 import next_item, tfield

CORE = "frost_core::"


def f0(base, *names):
    """matcher for base.n1.n2... (exact field chain)"""
    def m(t):
        for n in reversed(names):
            if not (isinstance(t, tuple) and t[0] == "field" and t[3] == n):
                return False
            t = t[1]
        return base(t)
    return m


def kernel(ctx, key, leaves, extract, what):
    """evaluate the term extract(view) of function key under the leaf table; returns algebra value or None"""
    f = ctx.anchor(key)
    if not f:
        return None
    v = FnView.get(ctx.prog, f)
    try:
        t = extract(f, v)
        if t is None:
            raise Unanalysable("kernel expression not found")
        return Alg(leaves).val(t)
    except Unanalysable as e:
        ctx.violation("H", key, what + ":unanalysable",
                      "kernel %s of %s contains a construct the algebraic evaluator does not model (%s): the agreement "
                      "obligation is not discharged" % (what, short(key), e), f.loc)
        return None


def eq_sides(f, v, refuse_when_equal=False):
    """the two sides of the equality whose failure makes f return Err"""
    for (e, fa) in v.facts:
        if fa[0] == "cond" and fa[1] == "eq" and fa[3] is not None:
            fails = [e2 for (e2, f2) in v.facts if e2[0] == e[0] and f2[0] == "cond" and f2[4] == refuse_when_equal]
            if fails and all(fail_is_error(f, e2) for e2 in fails):
                return fa[2], fa[3]
    # no branch: the Result is returned as a value that is Ok exactly when the equality has the accepting truth value
    from ..guards import ok_facts_of_value
    vals = [(b, k, rv) for (b, k, rv) in ret_writes(f) if k in ("call", "other", "ok")]
    if len(vals) == 1 and vals[0][1] in ("call", "other"):
        b, k, rv = vals[0]
        T = v.cx.call(rv, v.cx.site(b)) if k == "call" else v.cx.rvalue(rv, (f.key, b, 0))
        for fa in (ok_facts_of_value(T) if T is not None else ()):
            if fa[0] == "cond" and fa[1] == "eq" and fa[3] is not None and fa[4] == (not refuse_when_equal):
                return fa[2], fa[3]
    return None


def share_kernels(ctx):
    """z_i = d + e*rho + lambda*s*c  substituted into  G*z == (D + E*rho) + Y*(c*lambda)  with D=G*d, E=G*e, Y=G*s"""
    S = lambda n: ("scal", n)
    E = lambda n: ("elem", n)
    z = kernel(ctx, CORE + "round2::compute_signature_share",
               [(f0(arg(1), "hiding", "0", "0"), S("d")), (f0(arg(1), "binding", "0", "0"), S("e")), (f0(arg(2), "0"), S("rho")),
                (arg(3), S("lam")), (f0(arg(4), "signing_share", "0", "0"), S("s")), (f0(arg(5), "0"), S("c"))],
               lambda f, v: get_field(get_field(v.cx.local(0), "share"), "0") if v.cx.local(0)[0] == "agg" else None, "z_i")
    ri = kernel(ctx, CORE + "round1::SigningCommitments::<C>::to_group_commitment_share",
                [(f0(arg(1), "hiding", "0", "0"), E("D")), (f0(arg(1), "binding", "0", "0"), E("E")), (f0(arg(2), "0"), S("rho"))],
                lambda f, v: v.cx.local(0), "R_i")
    sides = None
    sv = ctx.anchor(CORE + "round2::SignatureShare::<C>::verify")
    if sv:
        v = FnView.get(ctx.prog, sv)
        sides = eq_sides(sv, v)
    if z is None or ri is None or sides is None:
        if sides is None and sv:
            ctx.violation("H", sv.key, "share-equation:not-found", "the share-check equality gating Ok was not found", sv.loc)
        return
    lv = [(f0(arg(1), "share", "0"), ("scal", "z")), (f0(arg(3), "0"), ("elem", "Ri")), (f0(arg(4), "0", "0"), ("elem", "Y")),
          (arg(5), ("scal", "lam")), (f0(arg(6), "0"), ("scal", "c"))]
    try:
        a, b = Alg(lv).val(sides[0]), Alg(lv).val(sides[1])
    except Unanalysable as e:
        ctx.violation("H", sv.key, "share-equation:unanalysable", "share-check equation not analysable: %s" % e, sv.loc)
        return
    diff = ("elem", eadd(a[1], b[1], -1))
    env = {"z": z, "Ri": ri, "Y": ("elem", {"G": algebra.sym("s")}), "D": ("elem", {"G": algebra.sym("d")}), "E": ("elem", {"G": algebra.sym("e")})}
    # two substitution rounds (Ri introduces D, E)
    r = algebra.esubst(diff[1], env)
    r = algebra.esubst(r, env)
    ctx.check(not r, "AGREE", sv.key, "signer-formula-satisfies-share-check",
              "the signer's share formula z_i = %s does not satisfy the share check %s == %s (with R_i = %s, D=G*d, E=G*e, "
              "Y=G*s): residue %s — honest shares would be rejected (or the check accepts something else)"
              % (show(z), show(a), show(b), show(ri), show(("elem", r))), sv.loc,
              {"z_i": show(z), "R_i": show(ri), "check": "%s == %s" % (show(a), show(b))})


def final_kernel(ctx):
    """verify_prehashed: (z*G - c*A - R) * h == 0; aggregate: z = sum z_i, R = sum D_i + sum rho_i*E_i.
    Checked shape: the verification form is linear in (z, R) with coefficients (+G, -1) and -c on the key, so that summing
    the per-signer identities G*z_i = R_i + c*lambda_i*Y_i gives the aggregate identity (Sigma lambda_i*Y_i = A is the
    single assumed identity)."""
    g = ctx.anchor(CORE + "verifying_key::VerifyingKey::<C>::verify_prehashed")
    if not g:
        return
    v = FnView.get(ctx.prog, g)
    sides = eq_sides(g, v)
    if not sides:
        ctx.violation("H", g.key, "verify-equation:not-found", "verification equality gating Ok not found", g.loc)
        return
    lv = [(f0(arg(3), "z"), ("scal", "z")), (f0(arg(3), "R"), ("elem", "R")), (f0(arg(1), "element", "0"), ("elem", "A")),
          (f0(arg(2), "0"), ("scal", "c")), (lambda t: is_call(t, name="cofactor"), ("scal", "h"))]
    try:
        a, b = Alg(lv).val(sides[0]), Alg(lv).val(sides[1])
    except Unanalysable as e:
        ctx.violation("H", g.key, "verify-equation:unanalysable", "verification equation not analysable: %s" % e, g.loc)
        return
    d = eadd(a[1], b[1], -1)
    want = {"G": {("h", "z"): 1}, "A": {("c", "h"): -1}, "R": {("h",): -1}}
    neg = {k: {m: -c for m, c in p.items()} for k, p in want.items()}
    ctx.check(d == want or d == neg, "AGREE", g.key, "(z*G - c*A - R)*h == 0",
              "single-signature verification is not the cofactored Schnorr check (z*G - c*A - R)*h == 0: found %s == %s"
              % (show(a), show(b)), g.loc, {"form": show(("elem", d))})
    # default_sign: z = k + c*s, R = G*k  satisfies it with A = G*s
    ds = ctx.anchor(CORE + "signing_key::SigningKey::<C>::default_sign")
    if ds:
        vd = FnView.get(ctx.prog, ds)
        t = vd.cx.local(0)
        nonce = lambda i: (lambda x: x[0] == "field" and x[3] == str(i) and is_call(x[1], name="generate_nonce"))
        chal = lambda x: x[0] == "field" and x[3] == "0" and is_call(x[1], name="expect") and is_call(x[1][2][0], name="challenge")
        lv2 = [(nonce(0), ("scal", "k")), (nonce(1), ("elem", "Rk")), (chal, ("scal", "c")), (f0(arg(1), "scalar"), ("scal", "s"))]
        try:
            zz = Alg(lv2).val(get_field(t, "z"))
            RR = Alg(lv2).val(get_field(t, "R"))
            env = {"z": zz, "R": RR, "A": ("elem", {"G": algebra.sym("s")}), "Rk": ("elem", {"G": algebra.sym("k")})}
            r = algebra.esubst(algebra.esubst(d, env), env)
            ctx.check(not r, "AGREE", ds.key, "single-signer-signature-verifies",
                      "default_sign's (R, z) = (%s, %s) does not satisfy the verification equation: residue %s"
                      % (show(RR), show(zz), show(("elem", r))), ds.loc)
            # challenge computed over (R, own public key, message)
            ch = [s for s in subterms(t) if is_call(s, name="challenge")]
            ok = bool(ch) and nonce(1)(ch[0][2][0]) and gen_times(unwrap_newtypes(ch[0][2][1]), f0(arg(1), "scalar")) and ch[0][2][2] == ("arg", 3)
            ctx.check(ok, "PROV", ds.key, "challenge(R, G*s, message)", "default_sign's challenge is not over (R, own verifying key, message)", ds.loc)
        except Unanalysable as e:
            ctx.violation("H", ds.key, "default_sign:unanalysable", str(e), ds.loc)
    gn = ctx.anchor(CORE + "traits::Ciphersuite::generate_nonce")
    if gn:
        t = FnView.get(ctx.prog, gn).cx.local(0)
        ok = t[0] == "agg" and is_call(t[4][0][1], name="random_nonzero") and gen_times(t[4][1][1], lambda s: s == t[4][0][1])
        ctx.check(ok, "AGREE", gn.key, "R==G*k", "generate_nonce must return (k, G*k) for one drawn k", gn.loc)


def lagrange_kernel(ctx):
    """per-factor form of the Lagrange coefficient, decided on the per-iteration transfer of the two accumulators (engine D,
    sa/paths.py): on x_j == x_i nothing changes; otherwise, with x given, num *= (x - x_j), den *= (x_i - x_j) (RFC 9591 §4.2 /
    the library's documented basis polynomial); the x = None case must equal the other one evaluated at x = 0 as a rational
    function; result = num * invert(den).  The accumulators are found from the result, whatever they are called and whether
    they are two scalars or one pair."""
    from ..paths import loop_transfer, component, Unbounded
    P = ctx.prog
    f = ctx.anchor(CORE + "compute_lagrange_coefficient")
    if not f:
        return
    v = FnView.get(P, f)
    nd = lagrange_accs(f, v)
    fo = lagrange_fold(f, v)
    lps = [lp for lp in loop_report(P, f) if nd and nd[0][0] in lp["acc"] and nd[1][0] in lp["acc"]]
    if fo is None and (nd is None or len(lps) != 1):
        ctx.violation("H", f.key, "lagrange-kernel:shape", "the result is not N * invert(D) for two accumulators N, D of one traversal", f.loc)
        return
    opt_x = lambda t: t == ("arg", 2) or (is_call(t, name="map") and "option::Option" in t[1] and t[2][0] == ("arg", 2))
    given = lambda fa: (("pass" if fa[2] else "fail") if fa[0] == "succ" and opt_x(fa[1]) else None)
    if fo is not None:
        # fold form: the per-element cases are the paths of the fold's closure; the state is the pair it is handed
        from ..paths import closure_cases
        fold_t, cn, cd = fo
        item = lambda t: t == ITEM
        n0, d0 = ("field", ACC, None, cn), ("field", ACC, None, cd)
        sv_ = seq_view(fold_t[2][0])
        init_ok = fold_t[2][1][0] == "agg" and fold_t[2][1][1] == "tuple" and all(is_call(x, name="one") for _, x in fold_t[2][1][4])
        flt_ok = sv_ is not None and (not sv_["adaptors"] or (sv_["adaptors"] == {"filter": 1} and _filter_leaves_out_xi(P, sv_)))
        ctx.check(sv_ is not None and sv_["base"] == ("arg", 1) and not sv_["drop_front"] and not sv_["drop_back"] and flt_ok
                  and init_ok, "RED", f.key, "over-the-whole-set",
                  "the Lagrange product must run over every element of x_set from (1, 1) (x_i itself may be filtered out, nothing else)", f.loc)
        raw = closure_cases(P, fold_t[2][2], {2: ACC, 3: ITEM})
        iter_paths = None if raw is None else [{"facts": c["facts"], "n": component(c["value"], cn), "d": component(c["value"], cd)} for c in raw]
    else:
        lp = lps[0]
        (ln, cn), (ld, cd) = nd
        item = next_item(lambda t: mentions(t, arg(1)))
        n0, d0 = component(("loopvar", f.key, ln), cn), component(("loopvar", f.key, ld), cd)
        iter_paths = "loop"
    xi = lambda t: strip_newtype_fields(t) == ("arg", 3) or (t[0] == "field" and strip_newtype_fields(t[1]) == ("arg", 3) and t[3] == "0")
    xj = lambda t: item(strip_newtype_fields(t)) or (t[0] == "field" and item(strip_newtype_fields(t[1])) and t[3] == "0")
    same = lambda fa: ("pass" if fa[4] else "fail") if (fa[0] == "cond" and fa[1] == "eq" and fa[3] is not None and
                                                        ((xi(fa[2]) and xj(fa[3])) or (xi(fa[3]) and xj(fa[2])))) else None
    leaves = [(lambda t: t == n0, ("scal", "n")), (lambda t: t == d0, ("scal", "d")),
              (lambda t: strip_newtype_fields(t) == ("some", ("arg", 2)) and t != ("some", ("arg", 2)), ("scal", "x")),
              (lambda t: strip_newtype_fields(t) == ("arg", 3) and t != ("arg", 3), ("scal", "xi")),
              (lambda t: t != strip_newtype_fields(t) and item(strip_newtype_fields(t)), ("scal", "xj"))]
    sym, pm, pa = algebra.sym, algebra.pmul, algebra.padd
    cases = {"same": [], "given": [], "none": []}
    filtered = lagrange_filter(P, f, v)
    try:
        al = Alg(leaves)
        if iter_paths is None:
            raise Unanalysable("the fold's closure has no bounded set of paths")
        if iter_paths == "loop":
            iter_paths = [{"facts": p["facts"], "n": component(p["values"][ln], cn), "d": component(p["values"][ld], cd)}
                          for p in loop_transfer(P, f, v, lp, {ln, ld}) if p["end"] == "back"]
        for p in iter_paths:
            s_ = ({same(fa) for fa in p["facts"]} - {None}) or ({"fail"} if filtered else set())
            g_ = {given(fa) for fa in p["facts"]} - {None}
            nv, dv = p["n"], p["d"]
            if s_ == {"pass"}:
                cases["same"].append((nv == n0, dv == d0))
            elif s_ == {"fail"} and g_ in ({"pass"}, {"fail"}):
                cases["given" if g_ == {"pass"} else "none"].append((al.val(nv)[1], al.val(dv)[1]))
            else:
                raise Unanalysable("an iteration path is not decided by `x_j == x_i` and `x is Some` (%s, %s)" % (s_, g_))
    except (Unanalysable, Unbounded) as e:
        ctx.violation("H", f.key, "lagrange-kernel:unanalysable", "Lagrange update not analysable: %s" % e, f.loc)
        return
    ctx.check((filtered and not cases["same"]) or (bool(cases["same"]) and all(a and b for a, b in cases["same"])), "RED", f.key, "only-x_i-is-left-out",
              "the iteration for x_j == x_i must leave numerator and denominator unchanged (and be the only one that does)", f.loc)
    want_num = pm(sym("n"), pa(sym("x"), sym("xj"), -1))
    want_den = pm(sym("d"), pa(sym("xi"), sym("xj"), -1))
    ctx.check(bool(cases["given"]) and all(a == want_num and b == want_den for a, b in cases["given"]), "AGREE", f.key, "factor==(x-x_j)/(x_i-x_j)",
              "with an evaluation point the Lagrange factor must be (x - x_j)/(x_i - x_j): found %s"
              % [(show(("scal", a)), show(("scal", b))) for a, b in cases["given"]], f.loc)
    # None case == Some case at x = 0 (as rational functions): numS(0)*denN - numN*denS == 0
    good = bool(cases["none"]) and bool(cases["given"])
    for (nS, dS) in cases["given"][:1]:
        for (nN, dN) in cases["none"]:
            numS0 = algebra.psubst(nS, {"x": ("scal", {})})
            if pa(pm(numS0, dN), pm(nN, dS), -1) or not nN or not dN:
                good = False
    ctx.check(good, "AGREE", f.key, "x=None-arm==x=0",
              "the x = None case of the Lagrange coefficient (%s) is not the general case evaluated at 0"
              % [(show(("scal", a)), show(("scal", b))) for a, b in cases["none"]], f.loc)
    ctx.ok("AGREE", f.key, "result==num*invert(den)")


def rho_is_h1_of_preimage(P, f):
    """compute_binding_factor_list returns one entry per (identifier, preimage) of binding_factor_preimages(package, key, prefix):
    identifier -> H1(that whole preimage) — collect form or insert loop"""
    v = FnView.get(P, f)
    oks = ok_values(f, v)
    comps = map_components(P, f, v, unwrap_newtypes(oks[0])) if len(oks) == 1 else []
    pre = lambda u: u[0] == "ok" and is_call(u[1], name="binding_factor_preimages") and u[1][2][0] == ("arg", 1) and \
        u[1][2][1] == ("arg", 2) and u[1][2][2] == ("arg", 3)
    ok = len(comps) == 1 and comps[0][0] == "each" and pre(comps[0][1]) and comps[0][2] == ("field", ITEM, None, "0")
    if ok:
        val = unwrap_newtypes(comps[0][3])
        ok = is_call(val, name="H1") and len(val[2]) == 1 and strip_views(val[2][0]) == ("field", ITEM, None, "1")
    return ok


def strip_views(t):
    """peel value-preserving views (as_slice / as_ref / deref / borrow)"""
    while is_call(t) and t[1].rsplit("::", 1)[-1] in ("as_slice", "as_ref", "deref", "borrow", "as_bytes") and len(t[2]) == 1:
        t = t[2][0]
    return t


def total_of(P, f, v, t):
    """t = (reduction) + extra, written `acc = acc + extra` after the loop or `acc + extra` in the result: (reduction, extra)"""
    if t[0] == "phi":
        r = reduction_of(P, f, v, t)
        if r and len(r["after"]) == 1 and is_call(r["after"][0], name="add") and r["after"][0][2][0] == ACC:
            return r, r["after"][0][2][1]
        return None, None
    if is_call(t, name="add") and len(t[2]) == 2:
        r = reduction_of(P, f, v, t[2][0])
        if r and not r["after"]:
            return r, t[2][1]
    return None, None


def _filter_leaves_out_xi(P, sv):
    """the traversal's only filter is `x_j != x_i`"""
    from ..guards import norm_cond
    if len(sv["filters"]) != 1:
        return False
    body = closure_body(P, sv["filters"][0], {2: ITEM})
    if body is None:
        return False
    kind, a, b, pos = norm_cond(body)
    xi = lambda t: strip_newtype_fields(t) == ("arg", 3)
    xj = lambda t: strip_newtype_fields(t) == ITEM
    return kind == "eq" and not pos and b is not None and ((xi(a) and xj(b)) or (xi(b) and xj(a)))


def lagrange_fold(f, v):
    """the fold call both accumulators of compute_lagrange_coefficient come from, when the product is written
    `x_set.iter()[.filter(..)].fold((one, one), |(num, den), x_j| ..)`: (fold term, numerator component, denominator component)"""
    oks = ok_values(f, v)
    if len(oks) != 1 or not is_call(oks[0], name="mul"):
        return None
    n, r = oks[0][2]
    if r[0] != "ok":
        return None
    inv = r[1][1] if r[1][0] == "map_err" else r[1]
    if not is_call(inv, name="invert"):
        return None
    d = inv[2][0]
    if n[0] == "field" and d[0] == "field" and n[2] is None and d[2] is None and n[1] == d[1] and n[3] != d[3] and \
            is_call(n[1], name="fold") and len(n[1][2]) == 3:
        return n[1], n[3], d[3]
    return None


def lagrange_filter(P, f, v):
    """the accumulator traversal of compute_lagrange_coefficient runs over `x_set.iter().filter(|x_j| x_i != **x_j)`: x_i is left
    out by the iterator instead of by a `continue` — True iff there is exactly one filter and that is its predicate"""
    fo = lagrange_fold(f, v)
    if fo is not None:
        sv = seq_view(fo[0][2][0])
        return bool(sv and sv["filters"]) and _filter_leaves_out_xi(P, sv)
    for lp in loop_report(P, f, v):
        sv = seq_view(lp["iter_term"]) if lp["iter_term"] is not None else None
        if sv and sv["filters"]:
            return _filter_leaves_out_xi(P, sv)
    return False


def lagrange_accs(f, v):
    """the result of compute_lagrange_coefficient is Ok(N * invert(D)?) for two loop-carried accumulators:
    ((local, component), (local, component)); component None for a scalar local, "0"/"1" for a pair"""
    oks = ok_values(f, v)
    if len(oks) != 1 or not is_call(oks[0], name="mul"):
        return None
    n, r = oks[0][2]
    if r[0] != "ok":
        return None
    inv = r[1][1] if r[1][0] == "map_err" else r[1]
    if not is_call(inv, name="invert"):
        return None

    def acc(t):
        if t[0] == "phi" and t[1][0] == f.key:
            return (t[1][1], None)
        if t[0] == "field" and t[2] is None and t[1][0] == "phi" and t[1][1][0] == f.key:
            return (t[1][1][1], t[3])
        return None
    a, b = acc(n), acc(inv[2][0])
    if a is None or b is None or a == b:
        return None
    return (a, b)


def roles(ctx):
    P = ctx.prog
    specs = [
        (CORE + "round2::sign", arg(1), lambda: fld(hooked(arg(3)), "verifying_key"), lambda: fld(hooked(arg(3)), "identifier")),
        (CORE + "aggregate_custom", arg(1), lambda: fld(hooked(arg(3)), "verifying_key"), None),
        (CORE + "verify_signature_share", arg(4),
         lambda: fld(hooked(lambda t: t[0] == "agg" and (t[2] or "").endswith("PublicKeyPackage") and dict(t[4]).get("verifying_key") == ("arg", 5)), "verifying_key"),
         lambda: arg(1)),
    ]
    for key, sp0, vkf, idf in specs:
        f = ctx.anchor(key)
        if not f:
            continue
        v = FnView.get(P, f)
        sp = hooked(sp0)
        vk = vkf()
        bfl = lambda t: t[0] == "ok" and is_call(t[1], name="compute_binding_factor_list") and sp(t[1][2][0]) and vk(t[1][2][1])
        gc = lambda t: t[0] == "ok" and is_call(t[1], name="compute_group_commitment") and sp(t[1][2][0]) and bfl(t[1][2][1])
        cb = v.calls_named("compute_binding_factor_list")
        ok = len(cb) == 1 and bfl(("ok", v.cx.call(f.blocks[cb[0][0]].term, (f.key, cb[0][0]))))
        ctx.check(ok, "ROLE", key, "rho-list(post-hook package, post-hook group key)",
                  "%s must compute the binding factors from the (post-hook) signing package and group key" % short(key), f.loc)
        cg = v.calls_named("compute_group_commitment")
        ok = len(cg) == 1 and gc(("ok", v.cx.call(f.blocks[cg[0][0]].term, (f.key, cg[0][0]))))
        ctx.check(ok, "ROLE", key, "R(package, rho-list)",
                  "%s must compute the group commitment from the same package and the binding-factor list it just computed" % short(key), f.loc)
        chs = [c for c in v.calls_named("challenge")]
        if key.endswith("aggregate_custom"):
            # the challenge is inside verify (pre_verify -> challenge) and detect_cheater; checked there / under C04
            ctx.ok("ROLE", key, "c(R, key, message):via-verify-and-detect_cheater")
        else:
            ok = len(chs) == 1
            if ok:
                a = v.call_args(chs[0][0])
                ok = (mentions(a[0], gc) and a[0][0] == "field") and vk(a[1]) and fld(sp, "message")(a[2])
            ctx.check(ok, "ROLE", key, "c(R, key, message)", "%s must derive the challenge from (R, group key, package message)" % short(key), f.loc)
        if idf is not None:
            idp = idf()
            if key.endswith("sign"):
                css = v.calls_named("compute_signature_share")
                ok = len(css) == 1
                if ok:
                    a = v.call_args(css[0][0])
                    lam_ok = a[3][0] == "ok" and lagrange_of(idp, sp)(a[3][1])
                    bf_ok = mentions(a[2], lambda s: s[0] == "some" and is_call(s[1], name="get") and idp(s[1][2][1]) and mentions(s[1][2][0], bfl))
                    ok = gc(a[0]) and hooked(arg(2))(a[1]) and bf_ok and lam_ok and hooked(arg(3))(a[4]) and \
                        a[5][0] == "ok" and is_call(a[5][1], name="challenge")
                ctx.check(ok, "ROLE", key, "share(R, nonces, rho_own, lambda_own, key package, c)",
                          "sign must hand compute_signature_share the group commitment, the checked nonces, its own binding "
                          "factor, its own Lagrange coefficient over the package's signer set, its key package and the challenge", f.loc)
            else:
                vs = v.calls_named("verify_signature_share_precomputed")
                ok = len(vs) == 1
                if ok:
                    a = v.call_args(vs[0][0])
                    ok = a[0] == ("arg", 1) and sp(a[1]) and bfl(a[2]) and gc(a[3]) and a[6][0] == "ok" and is_call(a[6][1], name="challenge")
                ctx.check(ok, "ROLE", key, "share-check(id, package, rho-list, R, share, verifying share, c)",
                          "verify_signature_share must check the share against values recomputed from its own arguments", f.loc)


def run(ctx):
    ctx.decided = ("signer-set provenance and completeness: Lagrange coefficients are computed over the key set of the "
                   "(post-hook) signing package, every reduction over signers (binding factors, preimages, commitment "
                   "encoding, group commitment with its three lock-step accumulations, sum of shares, multiscalar "
                   "multiplication) covers every element; role agreement: signer, coordinator and share verifier derive "
                   "rho-list, R, c and lambda from the same objects; kernel agreement: the signer's share formula "
                   "satisfies the share-check equation identically, single verification is the cofactored Schnorr check "
                   "and the single-signer signature satisfies it. The Lagrange kernel is decided per path class of one iteration (x_j == x_i leaves both accumulators unchanged; otherwise (x - x_j)/(x_i - x_j), the x = None case being that at x = 0), whatever the accumulators are called and whether they are two scalars or one pair.")
    ctx.undecided = ("the Lagrange identity Sigma lambda_i*s_i = s, field/group arithmetic, hashes, verification by an "
                     "external library.")
    ctx.floor = 30
    refusal_inventory(ctx)
    from .c04 import verified_aggregate_released
    verified_aggregate_released(ctx)
    P = ctx.prog
    wrappers(ctx, ['round2::sign', 'aggregate', 'aggregate_custom', 'round1::commit'])
    # (1) reductions
    f = ctx.anchor(CORE + "compute_lagrange_coefficient")
    if f:
        item = next_item(lambda t: mentions(t, arg(1)))
        xi = lambda t: strip_newtype_fields(t) == ("arg", 3) or (t[0] == "field" and strip_newtype_fields(t[1]) == ("arg", 3) and t[3] == "0")
        xj = lambda t: item(strip_newtype_fields(t)) or (t[0] == "field" and item(strip_newtype_fields(t[1])) and t[3] == "0")
        same = lambda fa: ("pass" if fa[4] else None) if (fa[0] == "cond" and fa[1] == "eq" and fa[3] is not None and
                                                          ((xi(fa[2]) and xj(fa[3])) or (xi(fa[3]) and xj(fa[2])))) else None
        v = FnView.get(P, f)
        nd = lagrange_accs(f, v)
        locs = {a[0] for a in nd} if nd else set()
        flt = lagrange_filter(P, f, v)
        lr = reductions(ctx, f.key, adaptors=({"filter": 1} if flt else {}), skip={l: same for l in locs}, min_loops=1,
                        labels={l: "num/den" for l in locs})
        if lr and lagrange_fold(f, v) is None:
            sv = seq_view(lr[0]["iter_term"]) if lr[0]["iter_term"] is not None else None
            ctx.check(sv is not None and sv["base"] == ("arg", 1) and not sv["drop_front"] and not sv["drop_back"] and
                      (not sv["filters"] or flt), "RED", f.key, "over-the-whole-set",
                      "the Lagrange product must run over every element of x_set (x_i itself may be filtered out, nothing else)", f.loc)
    f = ctx.anchor(CORE + "derive_interpolating_value")
    if f:
        v = FnView.get(P, f)
        t = v.cx.local(0)
        ok = lagrange_of(arg(1), arg(2))(t) and {k for k in adaptor_inventory(f) if k not in LOOKUPS} == set()
        ctx.check(ok, "PROV", f.key, "lambda(signer, keys(package.signing_commitments), x=0)",
                  "the interpolating value must be the Lagrange coefficient of the signer over all identifiers of the "
                  "signing package, evaluated at 0: %s" % fmt(t)[:200], f.loc)
    for key, over in ((CORE + "compute_binding_factor_list", None), (CORE + "SigningPackage::<C>::binding_factor_preimages", None)):
        f = ctx.anchor(key)
        if f:
            inv = {k: n for k, n in adaptor_inventory(f).items() if k not in LOOKUPS}
            ctx.check(not inv, "RED", key, "adaptors", "element-dropping adaptor %s in %s: some signer gets no binding factor" % (inv, short(key)), f.loc)
    f = P.fns.get(CORE + "compute_binding_factor_list")
    if f:
        v = FnView.get(P, f)
        ok = rho_is_h1_of_preimage(P, f)
        clo = [1]
        ctx.check(ok and len(clo) == 1, "PROV", f.key, "rho_i==H1(preimage_i)-for-every-signer",
                  "each signer's binding factor must be H1 of that signer's preimage, keyed by that signer", f.loc)
    f = ctx.anchor(CORE + "round1::encode_group_commitments")
    if f:
        reductions(ctx, f.key, adaptors={}, min_loops=0)
        _, pv = commitment_entry_parts(P)
        ctx.check(bool(pv) and pv["source"] == ("arg", 1), "RED", f.key, "over-the-whole-map",
                  "the commitment list encoding must cover every entry of the commitment map itself, in order", f.loc)
    f = ctx.anchor(CORE + "compute_group_commitment")
    if f:
        reductions(ctx, f.key, adaptors={}, min_loops=0)
        v = FnView.get(P, f)
        oks = ok_values(f, v)
        red, extra = total_of(P, f, v, unwrap_newtypes(oks[0])) if len(oks) == 1 else (None, None)
        over = lambda r: r is not None and fld(arg(1), "signing_commitments")(r["source"])
        peel0 = lambda t: peel0(t[1]) if isinstance(t, tuple) and t and t[0] == "field" and t[3] == "0" else t
        comp = lambda t, name: is_field(peel0(t), "SigningCommitments", name) and peel0(t)[1] == ("field", ITEM, None, "1")
        good = over(red) and len(red["init"]) == 1 and is_call(red["init"][0], name="identity") and len(red["steps"]) == 1 \
            and is_call(red["steps"][0], name="add") and red["steps"][0][2][0] == ACC and comp(red["steps"][0][2][1], "hiding") \
            and not red["skippable"] and not red["early_exit"]
        ctx.check(good, "RED", f.key, "hiding-sum-over-every-commitment",
                  "the group commitment must start from the identity and add the hiding commitment of every entry of the "
                  "package's commitment map", f.loc)
        ms = me = None
        if extra is not None and is_call(extra, name="vartime_multiscalar_mul") and len(extra[2]) == 2:
            ms, me = mapping_of(P, f, v, extra[2][0]), mapping_of(P, f, v, extra[2][1])
        rho = lambda t: peel0(t)[0] == "some" and is_call(peel0(t)[1], name="get") and fld(arg(2), "0")(peel0(t)[1][2][0]) \
            and peel0(t)[1][2][1] == ("field", ITEM, None, "0")
        ctx.check(over(ms) and over(me) and ms["key"] is None and me["key"] is None, "RED", f.key,
                  "three-accumulations-over-every-commitment",
                  "binding scalars and binding elements must each receive one entry per commitment of the package", f.loc)
        ctx.check(bool(ms) and bool(me) and rho(ms["val"]) and comp(me["val"], "binding"), "PROV", f.key, "(rho_i, E_i)-pushed-as-a-pair",
                  "binding element and binding factor of one iteration must belong to the same identifier", f.loc)
        ctx.check(good and bool(ms) and bool(me), "PROV", f.key, "R==sum(D_i)+msm(rho_i,E_i)",
                  "the group commitment must be the sum of hiding commitments plus the multiscalar product", f.loc)
    f = ctx.anchor(CORE + "aggregate_custom")
    if f:
        # adaptor inventory only: the z-sum is decided below on the reduction view; a blame scan written in place (with its reviewed
        # early stop) belongs to C04
        reductions(ctx, f.key, adaptors={}, min_loops=0, only_loops=lambda lp: False)
        v = FnView.get(P, f)
        oks = ok_values(f, v)
        good = False
        det = ""
        if len(oks) == 1:
            z = get_field(oks[0], "z")
            r = reduction_of(P, f, v, z)
            det = fmt(z)[:160]
            if r:
                src = r["source"]
                step_ok = len(r["steps"]) == 1 and is_call(r["steps"][0], name="add") and r["steps"][0][2][0] == ACC and \
                    strip_newtype_fields(unwrap_newtypes(r["steps"][0][2][1])) in (ITEM, ("field", ITEM, "frost_core::round2::SignatureShare", "share")) or \
                    (len(r["steps"]) == 1 and is_call(r["steps"][0], name="add") and r["steps"][0][2][0] == ACC and
                     mentions(r["steps"][0][2][1], lambda s: s == ITEM) and not mentions(r["steps"][0][2][1], lambda s: s[0] == "arg"))
                good = (is_call(src, name="values") and hooked(arg(2))(src[2][0]) and len(r["init"]) == 1 and is_call(r["init"][0], name="zero")
                        and step_ok and not r["after"] and not r["skippable"] and not r["early_exit"])
        ctx.check(good, "RED", f.key, "z==sum(all shares)",
                  "the aggregate z must be the sum, from zero, of every submitted share (post-hook map .values()): %s" % det, f.loc)
    key = "<<<C as frost_core::traits::Ciphersuite>::Group as frost_core::traits::Group>::Element as frost_core::scalar_mul::VartimeMultiscalarMul<C>>::optional_multiscalar_mul"
    f = ctx.anchor(key)
    if f:
        inv = {k: n for k, n in adaptor_inventory(f).items() if k not in LOOKUPS}
        ctx.check(inv == {"rev": 1, "zip": 1}, "RED", key, "adaptors", "multiscalar multiplication: adaptors %s, reviewed {rev, zip}" % inv, f.loc)
        v = FnView.get(P, f)
        zb = {bb for (bb, t, ci) in f.calls() if ci and ci.get("name") == "zip"}
        m = cmp_fact("eq", length(contains_term(arg(1))), length(contains_term(arg(2))), False)
        edges = {e for (e, fa) in v.facts if m(fa) == "pass"}
        ctx.check(bool(zb) and bool(edges) and not sep(f, edges, zb), "SEP", key, "equal-length-before-zip",
                  "scalars and points are zipped without the equal-length refusal: a missing point would silently drop a term", f.loc)
    lagrange_kernel(ctx)
    # the i-th commitments a signer publishes are those of the i-th nonces it keeps (otherwise its own signing step refuses the
    # package with IncorrectCommitment): shared with C15
    f = ctx.anchor(CORE + "round1::preprocess")
    if f:
        from .c15 import preprocess_pairs
        preprocess_pairs(ctx, f)
    # valid inputs are not refused: the count / parameter refusals are exactly the specified ones (a stricter comparison
    # such as `<=`, `>=` or an added upper bound does not match the exact normal form and is reported here)
    from .c03 import sign_count_refusal, aggregate_count_refusal
    from .c06 import check_validate
    sign_count_refusal(ctx)
    aggregate_count_refusal(ctx)
    check_validate(ctx)
    # keys from distributed key generation, arbitrary identifiers: the public package is keyed by the real identifiers
    from .c07 import helpers as dkg_package_helpers
    dkg_package_helpers(ctx)
    # (2) role agreement
    roles(ctx)
    # (3) kernels
    share_kernels(ctx)
    final_kernel(ctx)
