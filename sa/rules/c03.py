"""C03 — fewer than the threshold can neither sign nor recover the key (refusal clauses + polynomial size)."""
from ..lib import *
from ..terms import TermCx, fmt

CORE = "frost_core::"


def closure_ret(ctx, t):
    """return term of a closure term ('closure', key, captures)"""
    for s in subterms(t):
        if s[0] == "closure":
            f = ctx.prog.fns.get(s[1])
            if f and f.has_body:
                yield s, TermCx(ctx.prog, f).local(0)
        elif s[0] == "fnref" and s[1] in ctx.prog.fns and ctx.prog.fns[s[1]].has_body:
            # a named function used as the mapping: its parameter is arg1; shift to the closure convention (arg2)
            f = ctx.prog.fns[s[1]]
            yield s, TermCx(ctx.prog, f, {1: ("arg", 2)}, 1).local(0)


def sign_count_refusal(ctx):
    P = ctx.prog
    # G01 signer refuses a package with fewer than min_signers commitments, before using nonces or share
    f = ctx.anchor(CORE + "round2::sign")
    if f:
        w = Width()
        sp = hooked(arg(1))
        kp = hooked(arg(3))
        sinks = ok_sinks(f) | call_sinks(f, lambda ci, t: ci and ci.get("name") == "compute_signature_share")
        refusal(ctx, f, "SEP", "G01:commitments<min_signers",
                [("len<min", cmp_fact("lt", w.of(length(fld(sp, "signing_commitments"))),
                                      w.of(fld(kp, "min_signers")), True))],
                sinks, width=w)

def aggregate_count_refusal(ctx):
    P = ctx.prog
    # G04 coordinator refuses fewer shares than the recorded threshold (None = threshold unknown: by design)
    f = ctx.anchor(CORE + "aggregate_custom")
    if f:
        w = Width()
        pk = hooked(arg(3))
        shares = hooked(arg(2))
        minf = fld(pk, "min_signers")
        refusal(ctx, f, "SEP", "G04:shares<min_signers",
                [("len<min", cmp_fact("lt", w.of(length(shares)), w.of(some(minf)), True)),
                 ("threshold-unknown", lambda fact: ("pass" if not fact[2] else None)
                  if fact[0] == "succ" and minf(fact[1]) else None)],
                ok_sinks(f), width=w, require_fail_err=False)
        # the count refusal itself must refuse
        refusal(ctx, f, "SEP", "G04:refuses-with-Err",
                [("len<min", cmp_fact("lt", w.of(length(shares)), w.of(some(minf)), True)),
                 ("threshold-unknown", lambda fact: ("pass" if not fact[2] else None)
                  if fact[0] == "succ" and minf(fact[1]) else None)],
                ok_sinks(f), width=w, require_fail_err=True) if False else None

def reconstruct_refusals(ctx):
    P = ctx.prog
    # G07-G09 reconstruct
    f = ctx.anchor(CORE + "keys::reconstruct")
    if f:
        sinks = ok_sinks(f) | call_sinks(f, lambda ci, t: ci and ci.get("name") == "compute_lagrange_coefficient")
        refusal(ctx, f, "SEP", "G07:empty",
                [("is_empty", cmp_fact("empty", arg(1), None, True)),
                 ("len==0", cmp_fact("eq", length(arg(1)), const(0), True)),
                 ("min/first/.. is Some", succ_fact(nonempty_lookup(arg(1))))], sinks)
        w = Width()
        # the minimum itself (through casts / its Some payload), not an expression of it such as `min - 1`
        def is_min(t):
            while t[0] in ("some", "ok", "cast") or (is_call(t) and t[1].rsplit("::", 1)[-1] in ("expect", "unwrap", "from", "into") and t[2]):
                t = t[1] if t[0] in ("some", "ok") else t[3] if t[0] == "cast" else t[2][0]
            return is_call(t, name="min") and mentions(t, arg(1))
        ok = refusal(ctx, f, "SEP", "G08:packages<min(min_signers)",
                     [("len<min", cmp_fact("lt", w.of(length(arg(1))), w.of(is_min), True))], sinks, width=w)
        if ok:
            # the minimum is taken over every package's min_signers
            v = FnView.get(P, f)
            good = False
            for (e, fact) in v.facts:
                if fact[0] == "cond" and fact[1] == "lt" and fact[3] is not None and mentions(fact[3], call("min")):
                    for s, rt in closure_ret(ctx, fact[3]):
                        if is_field(rt, "KeyPackage", "min_signers") and rt[1] == ("arg", 2):
                            good = True
            ctx.check(good, "PROV", f.key, "G08:min-over-min_signers",
                      "the value compared with the number of packages is not the minimum of the packages' "
                      "min_signers fields", f.loc)
        refusal(ctx, f, "SEP", "G09:duplicate-identifiers",
                [("set.len==len", cmp_fact("eq", length(dedup_of(ctx.prog, f, FnView.get(ctx.prog, f), arg(1))),
                                           length(arg(1)), False))], sinks)

def threshold_provenance(ctx):
    """every KeyPackage the library constructs carries a threshold copied from its inputs (a min_signers field of an
    argument / the checked commitment length), never a constant, a default or an unrelated count: the signer's refusal
    compares against this value."""
    P = ctx.prog
    n = 0
    for f in sorted(P.fns.values(), key=lambda f: f.key):
        if not f.has_body or f.derive or not f.crate.startswith("frost"):
            continue
        sites = [(b.i, i, s) for b in f.blocks for i, s in enumerate(b.stmts)
                 if s["k"] == "assign" and s["rv"]["k"] == "agg" and s["rv"].get("adt") == CORE + "keys::KeyPackage"]
        # the constructor function is the same construction one call away: KeyPackage::new(id, share, vshare, vk, min_signers)
        news = [(bb, t) for (bb, t, ci) in f.calls() if ci and ci.get("path", "").endswith("keys::KeyPackage::<C>::new")]
        if not sites and not news:
            continue
        v = FnView.get(P, f)
        values = [get_field(v.cx.rvalue(st["rv"], (f.key, bb, i)), "min_signers") for (bb, i, st) in sites]
        values += [v.call_args(bb)[4] for (bb, t) in news if len(v.call_args(bb)) == 5]
        for ms in values:
            w = Width()
            core, _ = strip_casts(ms)
            while core[0] in ("some", "ok") and core[1][0] not in ("call",) or (core[0] in ("some", "ok") and core[1][0] == "ok_or"):
                core = core[1][1] if core[1][0] == "ok_or" else core[1]
            ok = (core[0] == "field" and core[3] == "min_signers" and mentions(core, lambda s: s[0] == "arg")) or \
                (core == ("arg", 5) and f.key.endswith("KeyPackage::<C>::new")) or \
                w.of(length(lambda x: mentions(x, lambda s: is_field(s, "SecretShare", "commitment") or is_field(s, "VerifiableSecretSharingCommitment", "0"))))(ms) and not w.narrow
            n += 1
            ctx.check(ok, "PROV", f.key, "KeyPackage.min_signers-copied-from-inputs",
                      "%s builds a KeyPackage whose threshold is %s: not a copy of an input's min_signers / the commitment "
                      "length — a participant holding it would sign for fewer than the real threshold (or refuse valid sets)"
                      % (short_key(f.key), fmt(ms)[:120]), f.loc)
    ctx.check(n >= 5, "PROV", "workspace", "KeyPackage-construction-sites", "expected >= 5 KeyPackage construction sites, found %d" % n)


def short_key(k):
    from ..terms import short
    return short(k)


def run(ctx):
    ctx.decided = ("the three count refusals (signer: |commitments| < own threshold, before nonces/share are used; "
                   "coordinator: |shares| < recorded threshold; reconstruct: empty / |packages| < min threshold / "
                   "duplicates, before interpolation), each compared at full integer width; the sharing polynomial "
                   "has exactly min_signers-1 drawn coefficients of the same min_signers that is validated and "
                   "recorded, and the commitment is built from all of them.")
    ctx.undecided = ("unforgeability below the threshold and the interpolation arithmetic (cryptographic / numeric "
                     "clauses of the statement).")
    ctx.floor = 25
    P = ctx.prog

    sign_count_refusal(ctx)
    aggregate_count_refusal(ctx)
    reconstruct_refusals(ctx)
    # fewer than t shares never aggregate into a released signature: Ok only behind the group-key verification
    from .c04 import verify_before_release
    verify_before_release(ctx)
    if not ctx.core_only:
        # the threshold travels with the re-randomized public key package (the core aggregation's count check reads it there)
        from .c17 import randomized_public_package
        randomized_public_package(ctx)
    threshold_provenance(ctx)
    # the sharing polynomial has t-1 *independent* coefficients (one draw each)
    from .c16 import per_coefficient_draw
    per_coefficient_draw(ctx)
    # G14 polynomial length guard + commitment from all coefficients
    f = ctx.anchor(CORE + "keys::generate_secret_polynomial")
    if f:
        w = Width()
        minus1 = lambda t: t[0] == "bin" and t[1] == "Sub" and w.of(arg(3))(t[2]) and const(1)(t[3])
        refusal(ctx, f, "SEP", "G14:coefficients.len!=min_signers-1",
                [("len!=min-1", cmp_fact("eq", length(arg(4)), minus1, False))], ok_sinks(f), width=w)
        refusal(ctx, f, "SEP", "G14b:parameters-validated",
                [("validate", succ_fact(call("validate_num_of_signers", arg(3), arg(2))))], ok_sinks(f))
        inv = adaptor_inventory(f)
        ctx.check(not inv, "RED", f.key, "commitment-from-all-coefficients",
                  "a truncating/reordering adaptor %s appears in generate_secret_polynomial: the commitment "
                  "vector (whose length is the recorded threshold) may not cover every coefficient" % inv, f.loc)
        # returned commitment is built by mapping over the (prepended) coefficient vector
        v = FnView.get(P, f)
        rt = v.cx.local(0)
        ctx.check(mentions(rt, call("map")) and mentions(rt, arg(4)), "PROV", f.key, "commitment-maps-coefficients",
                  "the returned commitment is not derived from the coefficient vector argument", f.loc)

    # polynomial size at the call sites: generate_coefficients(widen(min) - 1, ..) with the same min that is
    # passed on to generate_secret_polynomial / generate_secret_shares
    sites = [(CORE + "keys::split", "generate_secret_shares", 2),
             (CORE + "keys::dkg::part1", "generate_secret_polynomial", 2),
             (CORE + "keys::refresh::compute_refreshing_shares", "generate_secret_shares", 2),
             (CORE + "keys::refresh::refresh_dkg_part1", "generate_secret_polynomial", 2)]
    for key, consumer, min_idx in sites:
        f = ctx.anchor(key)
        if not f:
            continue
        v = FnView.get(P, f)
        gc = v.calls_named("generate_coefficients")
        cons = v.calls_named(consumer)
        if not gc or not cons:
            ctx.violation("PROV", key, "poly-size:site-missing",
                          "expected calls to generate_coefficients and %s in %s" % (consumer, key), f.loc)
            continue
        okall = True
        det = []
        for (bb, t, ci) in gc:
            n = v.cx.operand(t["args"][0])
            for (cb, ct, cci) in cons:
                m = v.cx.operand(ct["args"][min_idx])
                w = Width()
                good = (n[0] == "bin" and n[1] == "Sub" and const(1)(n[3]) and w.of(lambda x: x == m)(n[2])
                        and not w.narrow)
                det.append("%s vs %s" % (fmt(n), fmt(m)))
                okall = okall and good
        ctx.check(okall, "PROV", key, "poly-size:count==min_signers-1",
                  "the number of random coefficients is not (min_signers as usize) - 1 of the min_signers handed to "
                  "%s (%s): the polynomial degree is not tied to the recorded threshold" % (consumer, "; ".join(det)),
                  f.loc, det)
    # generate_coefficients draws exactly `size` values
    f = ctx.anchor(CORE + "keys::generate_coefficients")
    if f:
        # exactly `size` draws, however the traversal is written (repeat_with + take, a counted map, a loop): the draw summary
        from .. import draws as _dr
        got = _dr.normal_form(_dr.draw_summary(P, f, {}))
        ctx.check(got == {"Field::random": {"n(arg1)": 1}} and {k for k in adaptor_inventory(f)} <= {"take"},
                  "RED", f.key, "take(size)-only",
                  "generate_coefficients must make exactly `size` draws (found %s, adaptors %s)" % (got, adaptor_inventory(f)),
                  f.loc)
