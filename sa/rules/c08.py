"""C08 — key generation aborts and names the sender on any malformed peer contribution."""
from ..lib import *
from ..terms import TermCx, fmt
from .c04 import next_item, tfield

CORE = "frost_core::"
DKG = CORE + "keys::dkg::"



def senders_coincide(ctx, p3, what12, what21):
    """part3: the senders of the round-one and round-two packages are the same set.  round-one ⊆ round-two is a per-element refusal
    over the round-one map (its keys), in whatever form the traversal is written (`any(!contains)`, `!all(contains)`, a loop
    with an early return, a flag, `find`, a helper); round-two ⊆ round-one follows from size equality, or is its own lookup
    in the share loop.  Shared by C08 and C09."""
    from ..lib import _forall
    P = ctx.prog
    v = FnView.get(P, p3)
    src12 = lambda s: s == ("arg", 2) or (is_call(s, name="keys") and s[2] and s[2][0] == ("arg", 2))
    key_of = lambda item: (lambda t: item(t) or tfield(item, 0)(t))
    mech = [("round2.contains_key(id)", lambda item: cmp_fact("contains", arg(3), key_of(item), False)),
            ("round2.get(id) is Some", lambda item: succ_fact(lambda t: is_call(t, name="get") and t[2][0] == ("arg", 3) and key_of(item)(t[2][1])))]
    r, why = _forall(P, v, src12, mech, ok_sinks(p3), True, 0)
    if r is not None:
        ctx.ok("SEP", p3.key, what12, {"form": r["kind"], "in": r["fn"].key})
    else:
        ctx.violation("SEP", p3.key, what12, "not every round-one sender is required to have sent a round-two package: %s" % why, p3.loc)
    vsize = cmp_fact("eq", length(arg(2)), length(arg(3)), False)
    size_ok = not sep(p3, {e for (e, fa) in v.facts if vsize(fa) == "pass" and
                           all(fail_is_error(p3, e2) for (e2, f2) in v.facts if e2[0] == e[0] and vsize(f2) == "fail")},
                      ok_sinks(p3))
    if size_ok and r is not None:
        ctx.ok("SEP", p3.key, what21, {"mechanism": "size equality + " + what12})
    else:
        getok = lambda item: succ_fact(call("get", arg(2), tfield(item, 0)))
        forall_loop(ctx, p3, "LOOPDOM", what21, lambda s: s == ("arg", 3), [("get(ell).ok_or", getok)], require_fail_err=False)
    return r is not None


def count_guard(ctx, f, what, mapp, secretp, rule="SEP"):
    w = Width()
    maxm1 = lambda t: t[0] == "bin" and t[1] == "Sub" and fld(secretp, "max_signers")(t[2]) and const(1)(t[3])
    return refusal(ctx, f, rule, what, [("len!=max-1", cmp_fact("eq", w.of(length(mapp)), w.of(maxm1), False))],
                   ok_sinks(f), width=w)


def own_id_guard(ctx, f, what, mapp, secretp):
    return refusal(ctx, f, "SEP", what,
                   [("contains(own)", cmp_fact("contains", mapp, fld(secretp, "identifier"), True))], ok_sinks(f))


def peer_threshold_check(ctx, p2, what):
    """part2: every received round-one package's commitment has exactly the recipient's threshold many coefficients (compared at
    full width), else the whole call is refused.  Shared by C08 (wrong-degree contribution) and C09 (a contribution of a
    concurrent run with another threshold)."""
    w = Width()
    mk = lambda item: cmp_fact("eq", w.of(length(lambda t: mentions(t, lambda s: is_field(s, "Package", "commitment")
                                                                   and mentions(s[1], item)))),
                               w.of(fld(arg(1), "min_signers")), False)
    lp = forall_loop(ctx, p2, "LOOPDOM", what,
                     lambda s: s == ("arg", 2) or (is_call(s, name="values") and s[2][0] == ("arg", 2)),
                     [("len!=min", mk)])
    if lp is not None and w.narrow:
        ctx.violation("SEP-width", p2.key, what,
                      "the peer commitment's length is compared with the threshold after a narrowing cast (%s): a "
                      "commitment of length t+65536 passes the check" % "; ".join(sorted(set(w.narrow))), p2.loc)
    elif lp is not None:
        ctx.ok("SEP-width", p2.key, what)
    return lp


def share_check(item, own, r1):
    """SecretShare{identifier: own id, signing_share: item.1.signing_share, commitment: r1[item.0].commitment}.verify()"""
    def m(t):
        while t[0] == "map_err":
            t = t[1]
        if not is_call(t, name="verify") or not t[2]:
            return False
        s = t[2][0]
        if s[0] != "agg" or not s[2].endswith("SecretShare"):
            return False
        fl = dict(s[4])
        sender = tfield(item, 0)
        return (fld(own, "identifier")(fl["identifier"])
                and fld(tfield(item, 1), "signing_share")(fl["signing_share"])
                and fld(some(call("get", r1, sender)), "commitment")(fl["commitment"]))
    return m


def run(ctx):
    ctx.decided = ("part2: package count, own identifier absent, every peer commitment has the threshold's length "
                   "(compared without truncation), and for every sender its proof of knowledge is checked against the "
                   "same entry's identifier and commitment before a share is produced for it; part3: count, own "
                   "identifier absent from both maps, the two sender sets coincide, and every round-two share is "
                   "verified for (own identifier, that share, the same sender's round-one commitment) before it is "
                   "accumulated; the errors name the loop's sender / the proof's identifier; the proof challenge "
                   "binds identifier, constant-term commitment and R. The proof-of-knowledge challenge is identified as the Ok payload of the private helper that hashes with HDKG (any name / signature) and its preimage [identifier, phi_0, R] is decided at the call site of the prover and of the verifier; Error::culprits() yields exactly what each variant carries.")
    ctx.undecided = ("soundness of the Schnorr proof and 'first step that consumes the faulty field' across all "
                     "fault kinds.")
    ctx.floor = 18
    P = ctx.prog
    wrappers(ctx, ['keys::dkg::part2', 'keys::dkg::part3'])
    p2 = ctx.anchor(DKG + "part2")
    if p2:
        v = FnView.get(P, p2)
        count_guard(ctx, p2, "G18:package-count", arg(2), arg(1))
        own_id_guard(ctx, p2, "G19:own-identifier-in-round1", arg(2), arg(1))
        peer_threshold_check(ctx, p2, "G20:commitment-length==min_signers")
        pok = lambda item: succ_fact(lambda t: is_call(t, name="verify_proof_of_knowledge")
                                     and tfield(item, 0)(t[2][0])
                                     and fld(tfield(item, 1), "commitment")(t[2][1])
                                     and fld(tfield(item, 1), "proof_of_knowledge")(t[2][2]))
        lp = forall_loop(ctx, p2, "LOOPDOM", "G21:proof-of-knowledge-per-sender", lambda s: s == ("arg", 2),
                         [("verify_proof_of_knowledge(ell, pkg.commitment, pkg.proof)?", pok)], require_fail_err=False)
        # the share for ell is produced only after ell's proof verified (same iteration)
        if lp is not None:
            item = lp["item"]
            ents = produced_entries(lp)
            good = bool(ents) and blocks_after_check(lp, [b for (b, _k, _v) in ents])
            for (_b, key_, sh) in ents:
                good = good and tfield(item, 0)(key_)
                good = good and mentions(sh, lambda s: is_call(s, name="evaluate_polynomial") and tfield(item, 0)(strip_newtype_fields(s[2][0])))
            ctx.check(good, "LOOPDOM", p2.key, "G21:share-for-sender-after-its-proof",
                      "a round-two share is produced (or filed under another identifier) without the same sender's "
                      "proof of knowledge having been verified", p2.loc)
        reductions(ctx, p2.key, adaptors={}, min_loops=2)
    vp = ctx.anchor(DKG + "verify_proof_of_knowledge")
    cp = ctx.anchor(DKG + "compute_proof_of_knowledge")
    # the proof-of-knowledge challenge, found by what it is (the Ok payload of a private helper that hashes with HDKG), not by the
    # helper's name or signature
    cv = pok_challenge(P, vp) if vp else None
    cc = pok_challenge(P, cp) if cp else None
    ser_of = lambda inner: (lambda x: (x[0] == "ok" and is_call(x[1], name="serialize") and inner(x[1][2][0])) or
                            (is_call(x, name="serialize") and inner(x[2][0])))
    if vp:
        v = FnView.get(P, vp)
        vk = lambda t: t[0] == "ok" and is_call(t[1], name="verifying_key") and t[1][2][0] == ("arg", 2)
        phi0 = lambda t: vk(strip_newtype_fields(t)) or vk(t)
        bound = cv is not None and len(cv["parts"]) == 3 and ser_of(lambda x: strip_newtype_fields(x) == ("arg", 1))(cv["parts"][0]) and \
            ser_of(phi0)(cv["parts"][1]) and ser_of(fld(arg(3), "R"))(cv["parts"][2])
        ctx.check(bound, "COVER", vp.key, "HDKG-binds-identifier,phi0,R",
                  "the verifier's proof-of-knowledge challenge must be HDKG(identifier || constant-term commitment || R) for the "
                  "sender's identifier, the sender's commitment and the proof's R (found %s)"
                  % ([fmt(p)[:50] for p in cv["parts"]] if cv else "no HDKG-based challenge"), vp.loc)
        chal = lambda t: cv is not None and (t == cv["term"] or (t[0] == "field" and t[3] == "0" and t[1] == cv["term"]))
        eqn = cmp_fact("eq", fld(arg(3), "R"),
                       lambda t: mentions(t, fld(arg(3), "z")) and mentions(t, chal) and mentions(t, vk), False)
        refusal(ctx, vp, "SEP", "G22:proof-equation-gates-Ok", [("R==G*mu-phi0*c", eqn)], ok_sinks(vp))
        errs = [v.cx.operand(rv["ops"][0]) for (b, k, rv) in ret_writes(vp) if k == "err"]
        good = len(errs) == 1 and errs[0][0] == "agg" and errs[0][3] == "InvalidProofOfKnowledge" and \
            dict(errs[0][4]).get("culprit") == ("arg", 1)
        ctx.check(good, "PROV", vp.key, "G22:culprit-is-identifier",
                  "an invalid proof must be reported as InvalidProofOfKnowledge{culprit: the identifier argument}",
                  vp.loc)
    if cp:
        ctx.check(cc is not None and cv is not None and cc["helper"] == cv["helper"], "CALL", cp.key, "prover-and-verifier-share-one-challenge",
                  "compute_proof_of_knowledge and verify_proof_of_knowledge must derive the challenge through the same "
                  "function", cp.loc)
        own_vk = lambda t: (lambda u: u[0] == "ok" and is_call(u[1], name="verifying_key") and u[1][2][0] == ("arg", 3))(strip_newtype_fields(t))
        nonceR = lambda t: t[0] == "field" and t[3] == "1" and is_call(t[1], name="generate_nonce")
        good = cc is not None and len(cc["parts"]) == 3 and ser_of(lambda x: strip_newtype_fields(x) == ("arg", 1))(cc["parts"][0]) and \
            ser_of(own_vk)(cc["parts"][1]) and ser_of(nonceR)(cc["parts"][2])
        ctx.check(good, "PROV", cp.key, "proof-made-for-own-identifier-and-commitment",
                  "the proof of knowledge is not computed for (own identifier, own commitment, own nonce commitment): %s"
                  % ([fmt(p)[:50] for p in cc["parts"]] if cc else "no HDKG-based challenge"), cp.loc)
    pok_kernel(ctx)
    culprits_accessor(ctx)
    p3 = ctx.anchor(DKG + "part3")
    if p3:
        v = FnView.get(P, p3)
        count_guard(ctx, p3, "G23:package-count", arg(2), arg(1))
        own_id_guard(ctx, p3, "G24:own-identifier-in-round1", arg(2), arg(1))
        own_id_guard(ctx, p3, "G25:own-identifier-in-round2", arg(3), arg(1))
        senders_coincide(ctx, p3, "G27:round1-senders-in-round2", "G26:round2-senders-in-round1")
        src = lambda s: s == ("arg", 3)
        # G28 per-sender share check before accumulation
        chk = lambda item: succ_fact(share_check(item, arg(1), arg(2)))
        lp = forall_loop(ctx, p3, "LOOPDOM", "G28:share-verified-per-sender", src, [("SecretShare.verify()?", chk)],
                         require_fail_err=False)
        if lp is not None:
            # from here on everything is read in the element context: the loop body of part3, the per-element closure of a
            # try_fold / map, or either of them inside a helper
            item = lp["item"]
            v = lp["view"]
            p3e = lp["fn"]
            takes_share = lambda ci, a: bool(ci) and ci.get("name") == "add" and \
                any(mentions(x, tfield(item, 1)) for x in a)
            ctx.check(used_after_check(lp, takes_share), "LOOPDOM", p3.key, "G28:accumulate-after-verify",
                      "a round-two share is added to the signing share without (or before) its verification against "
                      "the same sender's commitment and the recipient's own identifier", p3.loc)
            # culprit = the loop's sender: wherever the share check's failure is turned into the returned error (a map_err
            # closure, a match in place, or an extracted helper), an InvalidSecretShare failure must be reported as
            # InvalidSecretShare{culprit: Some(sender)} and every other error forwarded unchanged
            sender = tfield(item, 0)
            cands = []   # (list of alternative error terms, original-error matcher)
            for (e, fa) in v.facts:
                if fa[0] != "succ":
                    continue
                X = fa[1]
                if X[0] == "map_err" and share_check(item, arg(1), arg(2))(X):
                    c = X[2]
                    cf = P.fns.get(c[1]) if c[0] == "closure" else None
                    if cf:
                        sub = {1: ("agg", "tuple", None, None, tuple((str(n), val) for n, val in enumerate(c[2])))}
                        ct = TermCx(P, cf, sub, 1).local(0)
                        cands.append((ct[2] if ct[0] == "phi" else (ct,), lambda x: x == ("arg", 2)))
                elif X[0] == "call" and X[1] in P.fns and P.fns[X[1]].has_body and X[1] != p3e.key and \
                        any(share_check(item, arg(1), arg(2))(lf[1]) for lf in lifted_facts(P, P.fns[X[1]], X[2], (X[3],)) if lf[0] == "succ"):
                    H = P.fns[X[1]]
                    hv = TermCx(P, H, {n + 1: a for n, a in enumerate(X[2])}, 1)
                    alts = [hv.operand(rv["ops"][0]) for (b, k, rv) in ret_writes(H) if k == "err"]
                    cands.append((tuple(alts), lambda x: x[0] in ("errval",) or (x[0] == "field" and mentions(x, lambda s: s[0] == "errval"))))
            # a match in place: the Err values written in the failure region of the share check
            for (e, fa) in v.facts:
                if fa[0] == "succ" and not fa[2] and share_check(item, arg(1), arg(2))(peel_result(fa[1])) and fa[1][0] != "map_err":
                    oks_ = [e2 for (e2, f2) in v.facts if e2[0] == e[0] and f2[0] == "succ" and f2[2]]
                    reach_ok = set().union(*[p3e.reach(e2[1], stop=frozenset({e[0]})) - {e[0]} for e2 in oks_]) if oks_ else set()
                    region = p3e.reach(e[1]) - reach_ok
                    alts = [v.cx.operand(rv["ops"][0]) for (b, k, rv) in ret_writes(p3e) if k == "err" and b in region]
                    if alts:
                        cands.append((tuple(alts), lambda x: x[0] == "errval" or mentions(x, lambda s: s[0] == "errval")))
            good = False
            for alts, is_orig in cands:
                named = [x for x in alts if x[0] == "agg" and x[3] == "InvalidSecretShare"]
                other = [x for x in alts if not (x[0] == "agg" and x[3] == "InvalidSecretShare")]
                if len(named) == 1 and len(other) >= 1 and all(is_orig(x) for x in other):
                    cu = dict(named[0][4])["culprit"]
                    if cu[0] == "agg" and cu[3] == "Some" and (sender(cu[4][0][1]) or sender(strip_newtype_fields(cu[4][0][1]))):
                        good = True
            ctx.check(good, "PROV", p3.key, "G28:culprit-is-sender",
                      "a failing round-two share must be reported as InvalidSecretShare{culprit: Some(the sender of "
                      "that share)}; other errors are forwarded unchanged", p3.loc)
        reductions(ctx, p3.key, adaptors={}, min_loops=1)


def pok_challenge(P, f):
    """the proof-of-knowledge challenge inside f: a term ok(helper(..)) whose Ok payload is HDKG(preimage) —
    dict(term, helper (path), parts (ordered preimage parts in f's vocabulary)) or None"""
    from ..seq import flatten
    v = FnView.get(P, f)
    seen = []
    for (e, fa) in v.own_facts:
        if fa[0] == "succ" and fa[2]:
            Y = peel_result(fa[1])
            if is_call(Y) and Y not in seen:
                seen.append(Y)
    for Y in seen:
        H = P.fns.get(Y[1])
        if H is None or not H.has_body or not H.crate.startswith("frost") or H.j.get("vis") == "Public":
            continue
        hv = FnView(P, H, {i + 1: a for i, a in enumerate(Y[2])}, (Y[3],))
        for pay in ok_values(H, hv):
            pay = unwrap_newtypes(pay)
            hs = [s_ for s_ in subterms(pay) if is_call(s_, name="HDKG")]
            if len(hs) == 1 and len(hs[0][2]) == 1:
                return {"term": ("ok", Y), "helper": Y[1], "parts": flatten(hs[0][2][0])}
    return None


def pok_kernel(ctx):
    """prover: (R, mu) = (G*k, k + a0*c); verifier: R == G*mu - phi0*c with phi0 = G*a0 — must be an identity"""
    from .. import algebra
    from ..algebra import Alg, Unanalysable, show, eadd
    from .c01 import eq_sides, f0
    P = ctx.prog
    cp, vp = P.fns.get(DKG + "compute_proof_of_knowledge"), P.fns.get(DKG + "verify_proof_of_knowledge")
    if not (cp and vp):
        return
    vc, vv = FnView.get(P, cp), FnView.get(P, vp)
    oks = ok_values(cp, vc)
    sides = eq_sides(vp, vv)
    if len(oks) != 1 or not sides:
        ctx.violation("H", vp.key, "pok-kernel:shape", "proof construction / verification equation not found", vp.loc)
        return
    nonce = lambda i: (lambda x: x[0] == "field" and x[3] == str(i) and is_call(x[1], name="generate_nonce"))
    cvs = [c for c in (pok_challenge(P, cp), pok_challenge(P, vp)) if c]
    chal = lambda x: any(x == c["term"] or (x[0] == "field" and x[3] == "0" and x[1] == c["term"]) for c in cvs)
    try:
        ap = Alg([(nonce(0), ("scal", "k")), (nonce(1), ("elem", "Rk")), (chal, ("scal", "c")),
                  (lambda x: x[0] == "some" and is_call(x[1], name="first") and x[1][2][0] == ("arg", 2), ("scal", "a0"))])
        mu, R = ap.val(get_field(oks[0], "z")), ap.val(get_field(oks[0], "R"))
        av = Alg([(f0(arg(3), "z"), ("scal", "mu")), (f0(arg(3), "R"), ("elem", "R")), (chal, ("scal", "c")),
                  (lambda x: strip_newtype_fields(x)[0] == "ok" and is_call(strip_newtype_fields(x)[1], name="verifying_key"), ("elem", "phi0"))])
        a, b = av.val(sides[0]), av.val(sides[1])
        diff = eadd(a[1], b[1], -1)
        env = {"mu": mu, "R": R, "Rk": ("elem", {"G": algebra.sym("k")}), "phi0": ("elem", {"G": algebra.sym("a0")})}
        r = algebra.esubst(algebra.esubst(diff, env), env)
        ctx.check(not r, "AGREE", vp.key, "honest-proof-satisfies-verification",
                  "the prover's (R, mu) = (%s, %s) does not satisfy the verifier's equation %s == %s: residue %s"
                  % (show(R), show(mu), show(a), show(b), show(("elem", r))), vp.loc, {"mu": show(mu)})
    except Unanalysable as e:
        ctx.violation("H", vp.key, "pok-kernel:unanalysable", str(e), vp.loc)
