"""C04 — aggregation never releases an invalid signature; blames exactly the cheaters."""
from ..lib import *
from ..guards import only_err, peel_result
from ..terms import TermCx, fmt

CORE = "frost_core::"


def next_item(src):
    """the current element of a for-loop over src: some(next(iter(src)))"""
    def m(t):
        return (isinstance(t, tuple) and t[0] == "some" and is_call(t[1], name="next")
                and t[1][2] and t[1][2][0][0] == "iter" and (src(t[1][2][0][1]) or src(strip_iter_calls(t[1][2][0]))))
    return m


def tfield(base, idx):
    return lambda t: isinstance(t, tuple) and t[0] == "field" and t[2] is None and t[3] == str(idx) and base(t[1])


def verified_aggregate_released(ctx):
    """completeness of aggregation: once the aggregate signature has verified under the group key, nothing can refuse it any
    more — from every success edge of that verification only Ok returns are reachable, in every cheater-detection mode (the
    per-share scan, which ends in an error, runs only after a failed verification)"""
    P = ctx.prog
    agg = ctx.anchor(CORE + "aggregate_custom")
    if not agg:
        return
    v = FnView.get(P, agg)
    ret_terms = [v.cx.operand(rv["ops"][0]) for (b, k, rv) in ret_writes(agg) if k == "ok"]
    pk, sp = hooked(arg(3)), hooked(arg(1))

    def is_verify(t):
        t = peel_result(t)
        if not (is_call(t, name="verify_signature") or is_call(t, name="verify")) or len(t[2]) < 3:
            return False
        a = t[2]
        msg, sig, key = (a[0], a[1], a[2]) if is_call(t, name="verify_signature") else (a[1], a[2], a[0])
        return fld(pk, "verifying_key")(key) and fld(sp, "message")(msg) and any(sig == r for r in ret_terms)
    edges = sorted({e for (e, fa) in v.own_facts if ((fa[0] == "succ" and fa[2]) or (fa[0] == "cond" and fa[1] == "success" and fa[4]))
                    and is_verify(fa[1] if fa[0] == "succ" else fa[2])})
    bad = []
    seen_after = []
    for e in edges:
        r = reach_flagaware(agg, v, e[1])
        ws = [(b, k) for (b, k, _) in ret_writes(agg) if b in r]
        if not ws:
            seen_after.append(e)      # a test of the result after the return value was written (drop elaboration): no verdict
            continue
        if any(k != "ok" for _, k in ws):
            bad.append((e, [(loc_of(agg, b), k) for b, k in ws if k != "ok"]))
    edges = [e for e in edges if e not in seen_after]
    if not edges:
        # the verification's Result returned / matched as a value: decided by G05 on the returned value; nothing to add here
        ctx.note("SEP", agg.key, "verified-aggregate-is-released: no branch on the verification result (value form)")
        return
    ctx.check(not bad, "SEP", agg.key, "verified-aggregate-is-released",
              "after the aggregate signature verified under the group key, aggregate_custom can still return an error (%s): "
              "an honest signing session may be refused" % bad[:2], agg.loc, {"success_edges": edges})


def verify_before_release(ctx):
    P = ctx.prog
    agg = ctx.anchor(CORE + "aggregate_custom")
    region = blame_region(P, agg) if agg else None
    det = region[0] if region and region[2] is not None else None      # the private helper holding the scan, if there is one
    if det:
        ctx.check(only_err(det), "ONLYERR", det.key, "never-Ok",
                  "the blame helper %s has a path that returns Ok: aggregation could release an unverified signature" % short(det.key),
                  det.loc)
    if agg:
        v = FnView.get(P, agg)
        # the returned value
        oks = [(b, rv) for (b, k, rv) in ret_writes(agg) if k == "ok"]
        ret_terms = [v.cx.operand(rv["ops"][0]) for b, rv in oks]
        pk = hooked(arg(3))
        sp = hooked(arg(1))

        def is_verify(t):
            if not (is_call(t, name="verify_signature") or is_call(t, name="verify")):
                return False
            a = t[2]
            if is_call(t, name="verify_signature"):
                msg, sig, key = a[0], a[1], a[2]
            else:
                key, msg, sig = a[0], a[1], a[2]
            return (fld(pk, "verifying_key")(key) and fld(sp, "message")(msg) and any(sig == r for r in ret_terms))

        mechs = [("group-key-verify", succ_fact(is_verify))]
        if det and only_err(det):
            mechs.append(("blame-helper-never-Ok", succ_fact(lambda t: is_call(t) and t[1] == det.key)))
        refusal(ctx, agg, "SEP", "G05:verify-before-release", mechs, ok_sinks(agg), require_fail_err=False)
        ctx.check(len(ret_terms) == 1 and ret_terms[0][0] == "agg" and ret_terms[0][2].endswith("Signature"),
                  "PROV", agg.key, "returned-signature-is-the-verified-aggregate",
                  "aggregate_custom's Ok value is not the locally built Signature aggregate", agg.loc)
        # Disabled: no per-share scan (names nobody): detect_cheater is reachable only through an edge on which the mode is
        # FirstCheater or AllCheaters
        # (the scan = the blame helper's call site, or — written in place — the share checks themselves)
        dc = {region[2]} if det else call_sinks(agg, lambda ci, t: ci and ci.get("name") == "verify_signature_share_precomputed")
        non_dis = exclusive(v.facts, lambda fa: "pass" if fa[0] == "variant" and fa[1] == ("arg", 4) and fa[2] == "FirstCheater" else None) | \
            exclusive(v.facts, lambda fa: "pass" if fa[0] == "variant" and fa[1] == ("arg", 4) and fa[2] == "AllCheaters" else None)
        non_dis |= {e for (e, fa) in v.facts if fa[0] == "variant" and fa[1] == ("arg", 4) and fa[2] in ("FirstCheater", "AllCheaters")
                    and not any(e2 == e and f2[0] == "variant" and f2[1] == ("arg", 4) and f2[2] == "Disabled" for (e2, f2) in v.facts)}
        ctx.check(bool(dc) and bool(non_dis) and not sep(agg, non_dis, dc), "PROV", agg.key,
                  "Disabled:no-blame", "with detection disabled aggregate_custom can still reach the per-share blame scan",
                  agg.loc)
        # (that the scan works on the post-hook shares / keys / package and the caller's mode is part of the scan rules below: they
        # are stated in aggregate_custom's vocabulary, through the helper's call site)
    return region


def blame_region(P, agg):
    """where the per-share blame scan lives: (F, V, call block) — the private helper aggregate_custom calls whose body runs
    verify_signature_share_precomputed (whatever its name and parameter order), seen with that call's arguments, or
    (aggregate_custom, its view, None) when the scan is written in place; None if there is no scan"""
    v = FnView.get(P, agg)
    scans = lambda g: any(ci and ci.get("name") == "verify_signature_share_precomputed" for (_, _, ci) in g.calls())
    for (bb, t, ci) in agg.calls():
        H = P.fns.get(ci.get("resolved") or "") or P.fns.get(ci.get("path") or "") if ci else None
        if H is not None and H.has_body and H.crate.startswith("frost") and H.j.get("vis") != "Public" and not H.j.get("reachable") \
                and H.key != agg.key and scans(H):
            hv = FnView(P, H, {i + 1: a for i, a in enumerate(v.call_args(bb))}, ((agg.key, bb),))
            return H, hv, bb
    if scans(agg):
        return agg, v, None
    return None


def run(ctx):    return det


def run(ctx):
    ctx.decided = ("verify-before-release: every path of aggregate_custom to Ok crosses the success edge of the group "
                   "key's verification of the very signature object that is returned, for the package's message "
                   "(the private blame helper — found by what it does, or the scan written in place — can never return Ok, so "
                   "its continuation is dead); blame wiring, stated in aggregate_custom's vocabulary: culprits are "
                   "collected only from the failing share's own InvalidSignatureShare, produced for the loop's "
                   "current (identifier, share, verifying share of that identifier); the scan runs over the whole "
                   "ordered map of post-hook shares, stops early only for FirstCheater, never runs when detection is disabled; the "
                   "share check names its identifier parameter; Error::culprits() yields exactly what each variant carries.")
    ctx.undecided = ("that a failing share check coincides with 'differs from the honest share' and that cancelling "
                     "errors yield a valid signature (algebra, decided only as kernel agreement under C01/C18).")
    ctx.floor = 10
    P = ctx.prog
    region = verify_before_release(ctx)
    culprits_accessor(ctx)
    if not ctx.core_only:
        # blame under re-randomization: the package handed to the core aggregation shifts every verifying share
        from .c17 import randomized_public_package
        randomized_public_package(ctx)
    if not region:
        ctx.violation("PROV", CORE + "aggregate_custom", "scan-over-all-shares-in-order",
                      "no per-share blame scan (verify_signature_share_precomputed over the submitted shares) was found in "
                      "aggregate_custom or in a private helper it calls", None)
    if region:
        det, v, _bb = region
        # everything below is stated in aggregate_custom's vocabulary: post-hook package / shares / keys, the caller's mode
        shares_, keys_, pkg_, MODE = hooked(arg(2)), hooked(arg(3)), hooked(arg(1)), ("arg", 4)
        item = next_item(shares_)
        ident = tfield(item, 0)
        share = tfield(item, 1)
        vshare = some(call("get", fld(keys_, "verifying_shares"), ident))

        def vssp(t):
            return (is_call(t, name="verify_signature_share_precomputed") and ident(t[2][0]) and pkg_(t[2][1])
                    and share(t[2][4]) and vshare(t[2][5]))
        scan_loop = lambda lp: lp["iter_term"] is not None and shares_(strip_iter_calls(lp["iter_term"]))
        # culprits only from the failing share's own error
        ext = [(bb, t) for (bb, t, ci) in det.calls() if ci and ci.get("name") in ("extend", "push", "append",
                                                                                 "extend_from_slice", "insert")]
        good = bool(ext)
        for (bb, t) in ext:
            a = v.call_args(bb)
            src = a[1] if len(a) > 1 else None
            ok1 = (src is not None and src[0] == "field" and src[3] == "culprits" and src[1][0] == "variant"
                   and src[1][2] == "InvalidSignatureShare" and src[1][1][0] == "errval" and vssp(src[1][1][1]))
            good = good and ok1
        ctx.check(good, "PROV", det.key, "culprits-from-failing-share",
                  "the culprit list is not extended exactly from the InvalidSignatureShare error returned by the "
                  "share check of the loop's current (identifier, share, verifying share of that identifier)",
                  det.loc)
        # the Err that carries culprits carries exactly that list
        errs = [rv for (b, k, rv) in ret_writes(det) if k == "err"]
        named = [v.cx.operand(rv["ops"][0]) for rv in errs]
        good = any(t[0] == "agg" and t[3] == "InvalidSignatureShare" for t in named) and \
            any(t[0] == "agg" and t[3] == "InvalidSignature" for t in named)
        ctx.check(good, "PROV", det.key, "error-kinds",
                  "detect_cheater must return InvalidSignatureShare{collected culprits} or, if none was found, "
                  "InvalidSignature", det.loc)
        # scan shape: whole ordered map, stop early only for FirstCheater, collect only on a failed share check
        culprit_locals = {l for lp in loop_report(P, det, v) if scan_loop(lp) for l in lp["acc"]}
        failed = lambda f: ("pass" if f[2] else None) if f[0] == "succ" and vssp(f[1]) else None
        lr = reductions(ctx, det.key, adaptors=({} if det.key != CORE + "aggregate_custom" else {}),
                        skip={l: failed for l in culprit_locals}, labels={l: "culprits" for l in culprit_locals},
                        brk=[lambda f: "pass" if f[0] == "variant" and f[1] == MODE and f[2] == "FirstCheater"
                             else None], min_loops=1, fn=det, view=v, only_loops=scan_loop,
                        rule="RED" if det.key != CORE + "aggregate_custom" else "RED-scan")
        if not lr:
            ctx.violation("PROV", det.key, "scan-over-all-shares-in-order",
                          "the blame scan is not written as a loop over the signature-share map: its order, early stop and coverage "
                          "cannot be decided (fails closed)", det.loc)
        if lr:
            lp = lr[0]
            ctx.check(shares_(strip_iter_calls(lp["iter_term"])), "PROV", det.key, "scan-over-all-shares-in-order",
                      "the blame scan does not iterate the signature-share map itself (ascending identifiers): %s"
                      % fmt(lp["iter_term"]), det.loc)
            # FirstCheater must stop: from the FirstCheater edge the loop header is not re-entered
            fc = [e for e in exclusive(v.facts, lambda fact: "pass" if fact[0] == "variant" and fact[1] == MODE
                                       and fact[2] == "FirstCheater" else None) if e[0] in lp["body"]]
            good = bool(fc)
            for e in fc:
                _, back = body_reach(det, lp, [e[1]])
                good = good and not back
            ctx.check(good, "RED", det.key, "FirstCheater-stops-at-first",
                      "under FirstCheater the scan continues after the first culprit (it would name later "
                      "cheaters too)", det.loc)
            # AllCheaters / others must not stop
            oth = [e for (e, fact) in v.facts if fact[0] == "variant" and fact[1] == MODE
                   and fact[2] == "AllCheaters" and e[0] in lp["body"]]
            good = bool(oth)
            for e in oth:
                seen, back = body_reach(det, lp, [e[1]])
                good = good and back
            ctx.check(good, "RED", det.key, "AllCheaters-continues",
                      "under AllCheaters the scan does not continue to the next share", det.loc)
    # share check names its own identifier parameter
    sv = ctx.anchor(CORE + "round2::SignatureShare::<C>::verify")
    if sv:
        v = FnView.get(P, sv)
        errs = err_values(P, sv, v)
        good = len(errs) == 1 and errs[0][0] == "agg" and errs[0][3] == "InvalidSignatureShare"
        if good:
            c = dict(errs[0][4]).get("culprits")
            args_in = {s for s in subterms(c) if s[0] == "arg"}
            good = args_in == {("arg", 2)}
        ctx.check(good, "PROV", sv.key, "culprit-is-identifier-param",
                  "SignatureShare::verify must fail with InvalidSignatureShare{culprits: [its identifier argument]}",
                  sv.loc)
        refusal(ctx, sv, "SEP", "share-equation-gates-Ok",
                [("eq", cmp_fact("eq", contains_term(fld(arg(1), "share")), contains_term(arg(4)), False))],
                ok_sinks(sv))
    vp = ctx.anchor(CORE + "verify_signature_share_precomputed")
    if vp:
        v = FnView.get(P, vp)
        # Ok only through the ciphersuite share check of (this share, this identifier, R_i of this identifier)
        def vs(t):
            if not is_call(t, name="verify_share"):
                return False
            a = t[2]
            rshare = a[3]
            own = lambda x: some(call("get", fld(arg(2), "signing_commitments"), arg(1)))(x) or \
                (is_call(x, name="signing_commitment") and x[2][0] == ("arg", 2) and x[2][1] == ("arg", 1))
            ok_r = mentions(rshare, own) and mentions(rshare, some(call("get", fld(arg(3), "0"), arg(1))))
            lam = a[5]
            ok_l = lam[0] == "ok" and lagrange_of(arg(1), arg(2))(lam[1])
            return a[1] == ("arg", 5) and a[2] == ("arg", 1) and a[4] == ("arg", 6) and a[6] == ("arg", 7) \
                and ok_r and ok_l
        refusal(ctx, vp, "SEP", "share-check-gates-Ok", [("verify_share", succ_fact(vs))], ok_sinks(vp),
                require_fail_err=False)
