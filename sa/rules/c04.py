"""C04 — aggregation never releases an invalid signature; blames exactly the cheaters."""
from ..lib import *
from ..guards import only_err
from ..terms import TermCx, fmt

CORE = "frost_core::"


def next_item(src):
    """the current element of a for-loop over src: some(next(iter(src)))"""
    def m(t):
        return (isinstance(t, tuple) and t[0] == "some" and is_call(t[1], name="next")
                and t[1][2] and t[1][2][0][0] == "iter" and (src(t[1][2][0][1]) or src(strip_iter_calls(t[1][2][0]))))
    return m


def tfield(base, idx):
    return lambda t: isinstance(t, tuple) and t[0] == "field" and t[2] is None and t[3] == str(idx) and base(t[1])


def verify_before_release(ctx):
    P = ctx.prog
    det = ctx.anchor(CORE + "detect_cheater")
    agg = ctx.anchor(CORE + "aggregate_custom")
    if det:
        ctx.check(only_err(det), "ONLYERR", det.key, "never-Ok",
                  "detect_cheater has a path that returns Ok: aggregation could release an unverified signature",
                  det.loc)
    if agg:
        v = FnView.get(P, agg)
        # the returned value
        oks = [(b, rv) for (b, k, rv) in ret_writes(agg) if k == "ok"]
        ret_terms = [v.cx.operand(rv["ops"][0]) for b, rv in oks]
        pk = hooked(arg(3))
        sp = hooked(arg(1))

        def is_verify(t):
            if not (is_call(t, name="verify_signature") or is_call(t, name="verify")):
                return False
            a = t[2]
            if is_call(t, name="verify_signature"):
                msg, sig, key = a[0], a[1], a[2]
            else:
                key, msg, sig = a[0], a[1], a[2]
            return (fld(pk, "verifying_key")(key) and fld(sp, "message")(msg) and any(sig == r for r in ret_terms))

        mechs = [("group-key-verify", succ_fact(is_verify))]
        if det and only_err(det):
            mechs.append(("detect_cheater-never-Ok", succ_fact(call("detect_cheater"))))
        refusal(ctx, agg, "SEP", "G05:verify-before-release", mechs, ok_sinks(agg), require_fail_err=False)
        ctx.check(len(ret_terms) == 1 and ret_terms[0][0] == "agg" and ret_terms[0][2].endswith("Signature"),
                  "PROV", agg.key, "returned-signature-is-the-verified-aggregate",
                  "aggregate_custom's Ok value is not the locally built Signature aggregate", agg.loc)
        # Disabled: no per-share scan (names nobody): detect_cheater is reachable only through an edge on which the mode is
        # FirstCheater or AllCheaters
        dc = call_sinks(agg, lambda ci, t: ci and ci.get("name") == "detect_cheater")
        non_dis = exclusive(v.facts, lambda fa: "pass" if fa[0] == "variant" and fa[1] == ("arg", 4) and fa[2] == "FirstCheater" else None) | \
            exclusive(v.facts, lambda fa: "pass" if fa[0] == "variant" and fa[1] == ("arg", 4) and fa[2] == "AllCheaters" else None)
        non_dis |= {e for (e, fa) in v.facts if fa[0] == "variant" and fa[1] == ("arg", 4) and fa[2] in ("FirstCheater", "AllCheaters")
                    and not any(e2 == e and f2[0] == "variant" and f2[1] == ("arg", 4) and f2[2] == "Disabled" for (e2, f2) in v.facts)}
        ctx.check(bool(dc) and bool(non_dis) and not sep(agg, non_dis, dc), "PROV", agg.key,
                  "Disabled:no-blame", "with detection disabled aggregate_custom can still reach detect_cheater",
                  agg.loc)
        # FirstCheater/AllCheaters: detect_cheater receives the post-hook shares/pubkeys/package and the mode
        for (bb, t, ci) in v.calls_named("detect_cheater"):
            a = v.call_args(bb)
            good = (hooked(arg(3))(a[1]) and a[5] == ("arg", 4) and hooked(arg(2))(a[3]))
            ctx.check(good, "PROV", agg.key, "detect_cheater-arguments",
                      "detect_cheater is not called with (post-hook public key package, post-hook shares, the "
                      "caller's detection mode): got %s" % ", ".join(fmt(x) for x in a), loc_of(agg, bb))
    return det


def run(ctx):
    ctx.decided = ("verify-before-release: every path of aggregate_custom to Ok crosses the success edge of the group "
                   "key's verification of the very signature object that is returned, for the package's message "
                   "(detect_cheater can never return Ok, so its continuation is dead); blame wiring: culprits are "
                   "collected only from the failing share's own InvalidSignatureShare, produced for the loop's "
                   "current (identifier, share, verifying share of that identifier); the scan runs over the whole "
                   "ordered map, stops early only for FirstCheater; share check names its identifier parameter.")
    ctx.undecided = ("that a failing share check coincides with 'differs from the honest share' and that cancelling "
                     "errors yield a valid signature (algebra, decided only as kernel agreement under C01/C18).")
    ctx.floor = 10
    P = ctx.prog
    det = verify_before_release(ctx)
    if not ctx.core_only:
        # blame under re-randomization: the package handed to the core aggregation shifts every verifying share
        from .c17 import randomized_public_package
        randomized_public_package(ctx)
    if det:
        v = FnView.get(P, det)
        item = next_item(arg(4))
        ident = tfield(item, 0)
        share = tfield(item, 1)
        vshare = some(call("get", fld(arg(2), "verifying_shares"), ident))

        def vssp(t):
            return (is_call(t, name="verify_signature_share_precomputed") and ident(t[2][0]) and t[2][1] == ("arg", 3)
                    and share(t[2][4]) and vshare(t[2][5]))
        # culprits only from the failing share's own error
        ext = [(bb, t) for (bb, t, ci) in det.calls() if ci and ci.get("name") in ("extend", "push", "append",
                                                                                 "extend_from_slice", "insert")]
        good = bool(ext)
        for (bb, t) in ext:
            a = v.call_args(bb)
            src = a[1] if len(a) > 1 else None
            ok1 = (src is not None and src[0] == "field" and src[3] == "culprits" and src[1][0] == "variant"
                   and src[1][2] == "InvalidSignatureShare" and src[1][1][0] == "errval" and vssp(src[1][1][1]))
            good = good and ok1
        ctx.check(good, "PROV", det.key, "culprits-from-failing-share",
                  "the culprit list is not extended exactly from the InvalidSignatureShare error returned by the "
                  "share check of the loop's current (identifier, share, verifying share of that identifier)",
                  det.loc)
        # the Err that carries culprits carries exactly that list
        errs = [rv for (b, k, rv) in ret_writes(det) if k == "err"]
        named = [v.cx.operand(rv["ops"][0]) for rv in errs]
        good = any(t[0] == "agg" and t[3] == "InvalidSignatureShare" for t in named) and \
            any(t[0] == "agg" and t[3] == "InvalidSignature" for t in named)
        ctx.check(good, "PROV", det.key, "error-kinds",
                  "detect_cheater must return InvalidSignatureShare{collected culprits} or, if none was found, "
                  "InvalidSignature", det.loc)
        # scan shape: whole ordered map, stop early only for FirstCheater, collect only on a failed share check
        lr = reductions(ctx, det.key, adaptors={},
                        skip={"all_culprits": lambda f: ("pass" if f[2] else None)
                              if f[0] == "succ" and vssp(f[1]) else None},
                        brk=[lambda f: "pass" if f[0] == "variant" and f[1] == ("arg", 6) and f[2] == "FirstCheater"
                             else None], min_loops=1)
        if not lr:
            ctx.violation("PROV", det.key, "scan-over-all-shares-in-order",
                          "the blame scan is not written as a loop over the signature-share map: its order, early stop and coverage "
                          "cannot be decided (fails closed)", det.loc)
        if lr:
            lp = lr[0]
            ctx.check(strip_iter_calls(lp["iter_term"]) == ("arg", 4), "PROV", det.key, "scan-over-all-shares-in-order",
                      "the blame scan does not iterate the signature-share map itself (ascending identifiers): %s"
                      % fmt(lp["iter_term"]), det.loc)
            # FirstCheater must stop: from the FirstCheater edge the loop header is not re-entered
            fc = [e for e in exclusive(v.facts, lambda fact: "pass" if fact[0] == "variant" and fact[1] == ("arg", 6)
                                       and fact[2] == "FirstCheater" else None) if e[0] in lp["body"]]
            good = bool(fc)
            for e in fc:
                _, back = body_reach(det, lp, [e[1]])
                good = good and not back
            ctx.check(good, "RED", det.key, "FirstCheater-stops-at-first",
                      "under FirstCheater the scan continues after the first culprit (it would name later "
                      "cheaters too)", det.loc)
            # AllCheaters / others must not stop
            oth = [e for (e, fact) in v.facts if fact[0] == "variant" and fact[1] == ("arg", 6)
                   and fact[2] == "AllCheaters" and e[0] in lp["body"]]
            good = bool(oth)
            for e in oth:
                seen, back = body_reach(det, lp, [e[1]])
                good = good and back
            ctx.check(good, "RED", det.key, "AllCheaters-continues",
                      "under AllCheaters the scan does not continue to the next share", det.loc)
    # share check names its own identifier parameter
    sv = ctx.anchor(CORE + "round2::SignatureShare::<C>::verify")
    if sv:
        v = FnView.get(P, sv)
        errs = [v.cx.operand(rv["ops"][0]) for (b, k, rv) in ret_writes(sv) if k == "err"]
        good = len(errs) == 1 and errs[0][0] == "agg" and errs[0][3] == "InvalidSignatureShare"
        if good:
            c = dict(errs[0][4]).get("culprits")
            args_in = {s for s in subterms(c) if s[0] == "arg"}
            good = args_in == {("arg", 2)}
        ctx.check(good, "PROV", sv.key, "culprit-is-identifier-param",
                  "SignatureShare::verify must fail with InvalidSignatureShare{culprits: [its identifier argument]}",
                  sv.loc)
        refusal(ctx, sv, "SEP", "share-equation-gates-Ok",
                [("eq", cmp_fact("eq", contains_term(fld(arg(1), "share")), contains_term(arg(4)), False))],
                ok_sinks(sv))
    vp = ctx.anchor(CORE + "verify_signature_share_precomputed")
    if vp:
        v = FnView.get(P, vp)
        # Ok only through the ciphersuite share check of (this share, this identifier, R_i of this identifier)
        def vs(t):
            if not is_call(t, name="verify_share"):
                return False
            a = t[2]
            rshare = a[3]
            own = lambda x: some(call("get", fld(arg(2), "signing_commitments"), arg(1)))(x) or \
                (is_call(x, name="signing_commitment") and x[2][0] == ("arg", 2) and x[2][1] == ("arg", 1))
            ok_r = mentions(rshare, own) and mentions(rshare, some(call("get", fld(arg(3), "0"), arg(1))))
            lam = a[5]
            ok_l = lam[0] == "ok" and lagrange_of(arg(1), arg(2))(lam[1])
            return a[1] == ("arg", 5) and a[2] == ("arg", 1) and a[4] == ("arg", 6) and a[6] == ("arg", 7) \
                and ok_r and ok_l
        refusal(ctx, vp, "SEP", "share-check-gates-Ok", [("verify_share", succ_fact(vs))], ok_sinks(vp),
                require_fail_err=False)
