"""MIR-level expansion of *non-vocabulary* private helpers (fact pre-pass used by rule anchors).

A private workspace function whose name no rule refers to (it is not in the rules' vocabulary) carries no review obligation of
its own: whether a block of code sits in the public function or in a private helper extracted from it is not observable.  The
anchor functions handed to the rules are therefore *expanded*: every call to such a helper is replaced by a copy of the helper's
MIR (locals and blocks renumbered, arguments bound by assignments, `return` turned into a jump to the continuation), recursively
to a small depth.  Helpers that rules name (compute_lagrange_coefficient, evaluate_vss, ...) stay calls, as before.  On today's
tree this changes nothing that a rule looks at; on a tree where validations / loop bodies / result assembly were extracted into
new helpers it restores the shape the rules were written for."""
import copy
import glob
import os
import re

from .mir import Fn, callee_of

MAX_DEPTH = 3
MAX_BLOCKS = 400
_vocab = None


def vocabulary():
    """identifiers (last path segment) that occur as string literals in the rule modules and engines"""
    global _vocab
    if _vocab is None:
        here = os.path.dirname(os.path.abspath(__file__))
        names = set()
        for fn in glob.glob(os.path.join(here, "rules", "*.py")) + glob.glob(os.path.join(here, "*.py")):
            if os.path.basename(fn) == "inline.py":
                continue
            for m in re.finditer(r'"(?:[^"\n]*::)?([A-Za-z_][A-Za-z0-9_]*)(?:[^"\n]*)"', open(fn).read()):
                names.add(m.group(1))
            for m in re.finditer(r'"((?:[^"\n]*::)?[A-Za-z_][A-Za-z0-9_:<>]*)"', open(fn).read()):
                names.add(m.group(1).rsplit("::", 1)[-1])
        _vocab = names
    return _vocab


def eligible(P, f, g):
    return (g is not None and g.has_body and g.crate.startswith("frost") and g.kind != "Closure" and g.key != f.key
            and g.j.get("vis") != "Public" and not g.j.get("reachable") and not g.j.get("impl_trait")
            and g.name not in vocabulary() and len(g.blocks) <= MAX_BLOCKS and not g.derive
            # fallible helpers stay calls: their refusals are followed compositionally (lib.pass_edges_of / _forall), which keeps
            # "the helper failed => the caller returns Err" exact; threading an inlined Err through the caller's `?` would not
            and not (g.j.get("output") or "").startswith(("core::result::Result<", "core::option::Option<")))


def _renumber(x, loff):
    """shift every local index in a JSON fragment"""
    if isinstance(x, dict):
        if "l" in x and "p" in x and isinstance(x["l"], int) and isinstance(x["p"], list):
            x["l"] += loff
            for e in x["p"]:
                if isinstance(e, dict) and isinstance(e.get("idx"), int):
                    e["idx"] += loff
            return
        for v in x.values():
            _renumber(v, loff)
    elif isinstance(x, list):
        for v in x:
            _renumber(v, loff)


def _retarget(term, boff):
    for k in ("target", "otherwise", "unwind"):
        if isinstance(term.get(k), int):
            term[k] += boff
    if "targets" in term:
        term["targets"] = [[v, bb + boff] for v, bb in term["targets"]]
    if term.get("k") == "other" and "dbg" in term:
        term["dbg"] = re.sub(r"bb(\d+)", lambda m: "bb%d" % (int(m.group(1)) + boff), term["dbg"])


def expand(P, f, depth=0, stack=()):
    """Fn with the calls to non-vocabulary private helpers replaced by their bodies (f itself if there is none)"""
    if not f.has_body or depth > MAX_DEPTH:
        return f
    sites = []
    for b in f.blocks:
        ci = callee_of(b.term)
        if not ci:
            continue
        g = None
        for k in (ci.get("resolved"), ci.get("path")):
            if k in P.fns:
                g = P.fns[k]
                break
        if g is not None and eligible(P, f, g) and g.key not in stack and len(b.term["args"]) == g.arg_count:
            sites.append((b.i, g))
    if not sites:
        return f
    j = copy.deepcopy(f.j)
    blocks = j["blocks"]
    for (bi, g) in sites:
        g2 = expand(P, g, depth + 1, stack + (f.key,))
        gj = copy.deepcopy(g2.j)
        loff = len(j["locals"])
        boff = len(blocks)
        for loc in gj["locals"]:
            loc = dict(loc)
            loc["i"] += loff
            j["locals"].append(loc)
        for vv in gj.get("vars") or []:
            vv = copy.deepcopy(vv)
            _renumber(vv, loff)
            if isinstance(vv.get("local"), int):
                vv["local"] += loff
            j.setdefault("vars", []).append(vv)
        call = blocks[bi]["term"]
        nb = len(gj["blocks"])
        entry, cont = boff + nb, boff + nb + 1
        for gb in gj["blocks"]:
            _renumber(gb["stmts"], loff)
            _renumber(gb["term"], loff)
            gb["i"] += boff
            _retarget(gb["term"], boff)
            if gb["term"]["k"] == "return":
                gb["term"] = {"k": "goto", "target": cont, "span": gb["term"].get("span", call.get("span"))}
            blocks.append(gb)
        span = call.get("span")
        binds = [{"k": "assign", "place": {"l": loff + 1 + i, "p": []}, "rv": {"k": "use", "op": a}, "span": span}
                 for i, a in enumerate(call["args"])]
        blocks.append({"i": entry, "stmts": binds, "term": {"k": "goto", "target": boff, "span": span}, "cleanup": False})
        ret = [{"k": "assign", "place": call["dest"], "rv": {"k": "use", "op": {"move": {"l": loff, "p": []}}}, "span": span}]
        tgt = call.get("target")
        blocks.append({"i": cont, "stmts": ret, "term": ({"k": "goto", "target": tgt, "span": span} if tgt is not None
                                                         else {"k": "other", "dbg": "unreachable", "span": span}), "cleanup": False})
        blocks[bi]["term"] = {"k": "goto", "target": entry, "span": span}
    j["expanded"] = sorted({g.key for _, g in sites})
    return Fn(j, f.crate)
