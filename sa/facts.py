"""Fact extraction: runs the rustc_private driver over /repo's current working
tree (cached by a hash of the tree) and loads the per-crate JSON dumps."""
import fcntl, hashlib, json, os, shutil, subprocess, sys, time

VERIF = os.path.dirname(os.path.dirname(os.path.abspath(__file__)))
REPO = os.environ.get("FROST_REPO", "/repo")
CACHE = os.path.join(VERIF, ".cache")
DRIVER = os.path.join(VERIF, "driver", "target", "release", "frost-facts")

CRATES = ["frost_core", "frost_rerandomized", "frost_ed25519", "frost_ed448", "frost_p256",
          "frost_ristretto255", "frost_secp256k1", "frost_secp256k1_tr"]

# feature configurations (cargo args); "default" is a superset of all non-test code
CONFIGS = {
    "default": ["--workspace", "--lib"],
    "core-nodefault": ["-p", "frost-core", "--lib", "--no-default-features"],
    "core-serde": ["-p", "frost-core", "--lib", "--no-default-features", "--features", "serde"],
}
# floors: MIR bodies per crate in the default configuration (counted on the pinned tree, minus slack
# for refactors; a run that sees fewer fails closed)
BODY_FLOORS = {"frost_core": 480, "frost_rerandomized": 20, "frost_ed25519": 25, "frost_ed448": 25,
               "frost_p256": 25, "frost_ristretto255": 25, "frost_secp256k1": 25, "frost_secp256k1_tr": 50}


def list_files(repo):
    r = subprocess.run(["git", "-C", repo, "ls-files", "-co", "--exclude-standard"], capture_output=True, text=True)
    if r.returncode == 0 and os.path.isdir(os.path.join(repo, ".git")) or (r.returncode == 0 and repo == REPO):
        return r.stdout.split("\n")
    out = []
    for root, dirs, files in os.walk(repo):
        dirs[:] = [d for d in dirs if d not in ("target", ".git")]
        for f in files:
            out.append(os.path.relpath(os.path.join(root, f), repo))
    return out


def tree_hash(repo=REPO):
    out = list_files(repo)
    h = hashlib.sha256()
    for rel in sorted(set(p for p in out if p)):
        if rel.startswith("target/"):
            continue
        # only files that can influence the build
        if not (rel.endswith(".rs") or rel.endswith(".toml") or rel.endswith(".lock") or rel.endswith(".md")):
            continue
        p = os.path.join(repo, rel)
        if not os.path.isfile(p):
            continue
        h.update(rel.encode() + b"\0")
        with open(p, "rb") as f:
            h.update(hashlib.sha256(f.read()).digest())
    with open(os.path.join(VERIF, "driver", "src", "dump.rs"), "rb") as f:
        h.update(f.read())
    return h.hexdigest()[:24]


def sysroot():
    return subprocess.run(["rustc", "+nightly", "--print", "sysroot"], capture_output=True, text=True,
                          check=True).stdout.strip()


def ensure_driver():
    src = os.path.join(VERIF, "driver", "src")
    newest = max(os.path.getmtime(os.path.join(src, f)) for f in os.listdir(src))
    if not os.path.exists(DRIVER) or os.path.getmtime(DRIVER) < newest:
        subprocess.run([os.path.join(VERIF, "setup.sh")], check=True, stdout=sys.stderr)


class FactError(Exception):
    pass


def extract(config="default", repo=REPO):
    """Returns directory with <crate>.json files for the current tree."""
    th = tree_hash(repo)
    out = os.path.join(CACHE, "facts", th, config)
    done = os.path.join(out, ".done")
    if os.path.exists(done):
        return out, th, True
    os.makedirs(CACHE, exist_ok=True)
    with open(os.path.join(CACHE, "lock"), "w") as lk:
        fcntl.flock(lk, fcntl.LOCK_EX)
        if os.path.exists(done):
            return out, th, True
        ensure_driver()
        shutil.rmtree(out, ignore_errors=True)
        os.makedirs(out)
        tgt = os.path.join(CACHE, "target", config)
        # cargo's freshness cache would skip the wrapper: drop the members' fingerprints
        fp = os.path.join(tgt, "debug", ".fingerprint")
        if os.path.isdir(fp):
            for d in os.listdir(fp):
                if d.startswith("frost-") or d.startswith("gencode"):
                    shutil.rmtree(os.path.join(fp, d), ignore_errors=True)
        env = dict(os.environ)
        env.update({
            "LD_LIBRARY_PATH": sysroot() + "/lib",
            "RUSTFLAGS": "-Zmir-opt-level=0 -Awarnings -Coverflow-checks=on -Cdebug-assertions=on",
            "RUSTC_WORKSPACE_WRAPPER": DRIVER,
            "CARGO_TARGET_DIR": tgt,
            "FROST_FACTS_DIR": out,
            "CARGO_NET_OFFLINE": "true",
        })
        env.pop("RUSTC_WRAPPER", None)
        t0 = time.time()
        r = subprocess.run(["cargo", "+nightly", "check", "--offline"] + CONFIGS[config], cwd=repo, env=env,
                           capture_output=True, text=True)
        if r.returncode != 0:
            raise FactError("cargo check failed for config %s:\n%s" % (config, r.stderr[-4000:]))
        want = CRATES if config == "default" else ["frost_core"]
        for c in want:
            if not os.path.exists(os.path.join(out, c + ".json")):
                raise FactError("fact file missing for crate %s (config %s)" % (c, config))
        with open(done, "w") as f:
            f.write("%.1f" % (time.time() - t0))
        # keep the cache small: drop fact dirs of other trees (keep the 3 newest)
        root = os.path.join(CACHE, "facts")
        ds = sorted((os.path.getmtime(os.path.join(root, d)), d) for d in os.listdir(root))
        for _, d in ds[:-3]:
            if d != th:
                shutil.rmtree(os.path.join(root, d), ignore_errors=True)
    return out, th, False


_sigs = None
ALIASES = {}
_DEFAULT_ALIASES = None


def private_sigs():
    global _sigs
    if _sigs is None:
        p = os.path.join(VERIF, "sa", "rules", "private_sigs.json")
        _sigs = json.load(open(p)) if os.path.exists(p) else {}
    return _sigs


def renamed_privates(crates):
    """A private helper that rules name may be renamed (the commonest maintenance edit there is).  It is recognised again by
    where it lives and its signature: same module / impl block, same parameter and return types, not part of the public or
    `internals` surface, a name today's table does not know, and exactly one such candidate.  Returns {new key: old key}.
    Anything else (two candidates, changed signature) stays an `anchor-missing` report."""
    sigs = private_sigs()
    out = {}
    for old, sg in sigs.items():
        j = crates.get(sg["crate"])
        if j is None:
            continue
        keys = {f["key"] for f in j["fns"]}
        if old in keys:
            continue
        parent = old.rsplit("::", 1)[0]
        cands = [f for f in j["fns"] if f.get("kind") in ("Fn", "AssocFn") and f["key"].rsplit("::", 1)[0] == parent
                 and f["key"] not in sigs and f.get("vis") != "Public" and not f.get("reachable")
                 and f.get("inputs") == sg["inputs"] and f.get("output") == sg["output"]]
        if len(cands) == 1 and cands[0]["key"] not in out:
            out[cands[0]["key"]] = old
    return out


def load(config="default", repo=REPO):
    d, th, cached = extract(config, repo)
    crates = {}
    raws = {}
    want = CRATES if config == "default" else ["frost_core"]
    for c in want:
        with open(os.path.join(d, c + ".json")) as f:
            raw = f.read()
        raws[c] = raw.replace("crate::", c + "::")
        crates[c] = json.loads(raws[c])
    # renames are recognised in the default configuration (a superset of all non-test code) and reused for the others: in a
    # reduced configuration a helper may simply be compiled out, which is not a rename
    global _DEFAULT_ALIASES
    if config == "default":
        al = renamed_privates(crates)
        _DEFAULT_ALIASES = dict(al)
        ALIASES.clear()
        ALIASES.update(al)
    else:
        if _DEFAULT_ALIASES is None:
            load("default", repo)
        keys = {f["key"] for j in crates.values() for f in j["fns"]}
        al = {n: o for n, o in (_DEFAULT_ALIASES or {}).items() if n in keys}
    if al:
        import re
        for c in want:
            raw = raws[c]
            for new, old in al.items():
                raw = re.sub(re.escape(new) + r"(?![A-Za-z0-9_])", lambda m: old, raw)
                nn, on = new.rsplit("::", 1)[1], old.rsplit("::", 1)[1]
                raw = raw.replace('"name":"%s"' % nn, '"name":"%s"' % on).replace('"name": "%s"' % nn, '"name": "%s"' % on)
            crates[c] = json.loads(raw)
    for c in want:
        if config == "default":
            n = sum(1 for f in crates[c]["fns"] if f.get("blocks"))
            if n < BODY_FLOORS[c]:
                raise FactError("crate %s: %d MIR bodies < floor %d" % (c, n, BODY_FLOORS[c]))
    return crates, th, cached



def fixture_facts():
    """facts of /verif/fixtures/lib.rs (positive controls), compiled with the driver directly"""
    src = os.path.join(VERIF, "fixtures", "lib.rs")
    with open(src, "rb") as f:
        h = hashlib.sha256(f.read())
    with open(os.path.join(VERIF, "driver", "src", "dump.rs"), "rb") as f:
        h.update(f.read())
    out = os.path.join(CACHE, "fixtures", h.hexdigest()[:16])
    fj = os.path.join(out, "fixtures.json")
    if not os.path.exists(fj):
        ensure_driver()
        os.makedirs(out, exist_ok=True)
        env = dict(os.environ)
        env.update({"LD_LIBRARY_PATH": sysroot() + "/lib", "FROST_FACTS_DIR": out})
        r = subprocess.run([DRIVER, src, "--crate-type", "lib", "--crate-name", "fixtures", "--edition", "2021",
                            "-Zmir-opt-level=0", "-Awarnings", "-Coverflow-checks=on", "-Cdebug-assertions=on",
                            "--emit=metadata", "-o", os.path.join(out, "libfixtures.rmeta")],
                           env=env, capture_output=True, text=True)
        if r.returncode != 0 or not os.path.exists(fj):
            raise FactError("fixture crate failed to compile:\n" + r.stderr[-2000:])
    with open(fj) as f:
        raw = f.read().replace("crate::", "fixtures::")
    return {"fixtures": json.loads(raw)}
