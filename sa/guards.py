"""Engine A: branch facts and edge-separation rules (SEP / ONLYERR)."""
from .mir import callee_of, is_bare
from .terms import TermCx, is_call, strip_casts, fmt, mentions

CMP_BIN = {"Lt": ("lt", False, True), "Ge": ("lt", False, False), "Gt": ("lt", True, True), "Le": ("lt", True, False),
           "Eq": ("eq", False, True), "Ne": ("eq", False, False)}
CMP_CALL = {"lt": ("lt", False, True), "ge": ("lt", False, False), "gt": ("lt", True, True), "le": ("lt", True, False),
            "eq": ("eq", False, True), "ne": ("eq", False, False)}
PRED_CALLS = {
    # name -> (pred name, positive)
    "is_empty": ("empty", True), "contains_key": ("contains", True), "contains": ("contains", True),
    "is_some": ("success", True), "is_none": ("success", False), "is_ok": ("success", True),
    "is_err": ("success", False), "any": ("any", True), "all": ("all", True),
}


def norm_cond(t):
    """boolean term -> (kind, a, b, positive).  kind: lt (a<b), eq, empty, contains, success, any, all, other"""
    pos = True
    while True:
        if t[0] == "un" and t[1] == "Not":
            pos = not pos
            t = t[2]
            continue
        break
    # Choice -> bool conversions around a predicate call: bool::from(x.is_some()), x.is_some().into()
    while t[0] == "call" and t[1].rsplit("::", 1)[-1] in ("from", "into", "unwrap_u8", "to_bool") and len(t[2]) == 1 and \
            isinstance(t[2][0], tuple) and t[2][0] and t[2][0][0] == "call" and t[2][0][1].rsplit("::", 1)[-1] in PRED_CALLS:
        t = t[2][0]
    if t[0] == "bin" and t[1] in CMP_BIN:
        rel, swap, p = CMP_BIN[t[1]]
        a, b = (t[3], t[2]) if swap else (t[2], t[3])
        if rel == "eq" and repr(a) > repr(b):
            a, b = b, a
        return (rel, a, b, pos == p)
    if t[0] == "call":
        name = t[1].rsplit("::", 1)[-1]
        if ("PartialEq" in t[1] or "PartialOrd" in t[1]) and name in CMP_CALL and len(t[2]) == 2:
            rel, swap, p = CMP_CALL[name]
            a, b = (t[2][1], t[2][0]) if swap else (t[2][0], t[2][1])
            if rel == "eq" and repr(a) > repr(b):
                a, b = b, a
            return (rel, a, b, pos == p)
        if name in PRED_CALLS:
            pn, p = PRED_CALLS[name]
            a = t[2][0] if t[2] else None
            b = t[2][1] if len(t[2]) > 1 else None
            return (pn, a, b, pos == p)
    return ("other", t, None, pos)


class Edge(tuple):
    """(src, dst, label)"""
    __slots__ = ()


def switch_facts(fn, b, t, d):
    """facts on the edges of one switch whose discriminant evaluates to term d"""
    out = []
    edges = fn.term_succs(b)
    if t["dty"] == "bool":
        kind, a, bb_, pos = norm_cond(d)
        for (dst, lab) in edges:
            truth = (lab != "0")
            out.append(((b, dst, lab), ("cond", kind, a, bb_, truth == pos)))
        # a success predicate also yields a succ fact
        if kind == "success":
            for (dst, lab) in edges:
                truth = (lab != "0")
                out.append(((b, dst, lab), ("succ", a, truth == pos)))
    elif d[0] == "discr":
        X = d[1]
        vmap = dict(d[2]) if d[2] else {}
        names = set(vmap.values())
        listed = set()
        for (dst, lab) in edges:
            if lab == "otherwise":
                continue
            listed.add(int(lab))
        for (dst, lab) in edges:
            if lab == "otherwise":
                rest = [n for v, n in vmap.items() if v not in listed]
                vs = rest
            else:
                vs = [vmap.get(int(lab), "?")]
            for vn in vs:
                if X[0] == "try" and vn in ("Continue", "Break"):
                    out.append(((b, dst, lab), ("succ", X[1], vn == "Continue")))
                elif names <= {"Ok", "Err"} or names <= {"Some", "None"}:
                    out.append(((b, dst, lab), ("succ", X, vn in ("Ok", "Some"))))
                else:
                    out.append(((b, dst, lab), ("variant", X, vn)))
    else:
        for (dst, lab) in edges:
            out.append(((b, dst, lab), ("int", d, lab)))
    return out


def branch_facts(prog, fn, cx=None):
    """For every switch in normal flow: list of (edge, fact).
    fact = ('cond', kind, a, b, holds)  — comparison/predicate `kind(a,b)` is `holds` on this edge
         | ('succ', X, ok)              — X (Result/Option/Try) is Ok/Some (ok=True) or Err/None
         | ('variant', X, name)         — enum X has this variant
         | ('int', X, value|'otherwise')"""
    cx = cx or TermCx(prog, fn)
    out = []
    for b in sorted(fn.normal_blocks()):
        t = fn.blocks[b].term
        if t["k"] != "switch":
            continue
        d = cx.operand(t["discr"])
        out += switch_facts(fn, b, t, d)
    # `cond.then_some(v).ok_or(E)?` / `cond.then(|| v)`: the Option/Result is Some/Ok exactly when cond holds
    extra = []
    for (e, fa) in out:
        if fa[0] == "succ":
            mo = map_or_source(fa[1])
            if mo is not None:
                # `opt.map_or(Ok(()), Err)?`: Ok exactly when opt is None (or the mirror image)
                fa = ("succ", mo[0], fa[2] == mo[1])
                extra.append((e, fa))
            c = then_cond(fa[1])
            if c is not None:
                kind, a, bb_, pos = norm_cond(c)
                extra.append((e, ("cond", kind, a, bb_, fa[2] == pos)))
    # emptiness is one fact however it is tested: `x.is_empty()`, `x.len() == 0`, the slice pattern `[]`
    for (e, fa) in out + extra:
        if fa[0] == "cond" and fa[1] == "eq" and fa[3] is not None:
            for a, b_ in ((fa[2], fa[3]), (fa[3], fa[2])):
                if isinstance(b_, tuple) and b_ and b_[0] == "const" and b_[2] == 0 and isinstance(a, tuple) and a and \
                        ((a[0] == "call" and a[1].rsplit("::", 1)[-1] == "len" and len(a[2]) == 1) or a[0] == "len"):
                    extra.append((e, ("cond", "empty", a[2][0] if a[0] == "call" else a[1], None, fa[4])))
        elif fa[0] == "cond" and fa[1] == "empty":
            extra.append((e, ("cond", "eq", ("len", fa[2]), ("const", "usize", 0), fa[4])))
    return out + extra


def peel_result(X):
    """strip Result/Option plumbing that does not change success: ok_or / map_err / ok_or_else"""
    while isinstance(X, tuple) and X:
        if X[0] in ("ok_or", "map_err"):
            X = X[1]
        elif X[0] == "call" and X[1].rsplit("::", 1)[-1] in ("ok_or", "ok_or_else", "map_err") and X[2]:
            X = X[2][0]
        elif X[0] == "call" and X[1].rsplit("::", 1)[-1] in ("map", "copied", "cloned", "as_ref", "as_deref", "inspect") and X[2] \
                and ("option::Option" in X[1] or "result::Result" in X[1]):
            X = X[2][0]       # Some/Ok exactly when the receiver is
        else:
            break
    return X


def then_cond(X):
    """X = cond.then_some(v) / cond.then(f) (possibly under ok_or/map_err): the condition term, else None"""
    Y = peel_result(X)
    if isinstance(Y, tuple) and Y and Y[0] == "call" and Y[1].rsplit("::", 1)[-1] in ("then_some", "then") and \
            "bool" in Y[1] and len(Y[2]) == 2:
        return Y[2][0]
    return None


def map_or_source(X):
    """X = opt.map_or(Ok(..), Err) (Ok exactly when opt is None) or opt.map_or(Err(..), Ok) (Ok exactly when opt is Some), possibly
    under map_err: (opt, polarity) with polarity = "X is Ok iff opt is Some"; else None"""
    Y = X
    while isinstance(Y, tuple) and Y and (Y[0] == "map_err" or (Y[0] == "call" and Y[1].rsplit("::", 1)[-1] == "map_err" and Y[2])):
        Y = Y[1] if Y[0] == "map_err" else Y[2][0]
    if isinstance(Y, tuple) and Y and Y[0] == "call" and Y[1].rsplit("::", 1)[-1] == "map_or" and "option::Option" in Y[1] and len(Y[2]) == 3:
        opt, dflt, fn_ = Y[2]
        is_ctor = lambda t, nm: isinstance(t, tuple) and t and t[0] == "fnref" and t[1] == "core::result::Result::" + nm
        is_val = lambda t, nm: isinstance(t, tuple) and t and t[0] == "agg" and t[2] == "core::result::Result" and t[3] == nm
        if is_val(dflt, "Ok") and is_ctor(fn_, "Err"):
            return opt, False
        if is_val(dflt, "Err") and is_ctor(fn_, "Ok"):
            return opt, True
    return None


def ok_facts_of_value(T):
    """facts that hold whenever the Result/Option value T is Ok/Some (T is returned or tested elsewhere)"""
    out = [("succ", T, True)]
    if peel_result(T) != T:
        out.append(("succ", peel_result(T), True))
    c = then_cond(T)
    if c is not None:
        kind, a, b, pos = norm_cond(c)
        out.append(("cond", kind, a, b, pos))
    mo = map_or_source(T)
    if mo is not None:
        opt, pol = mo
        out.append(("succ", opt, pol))
        c = then_cond(opt)
        if c is not None:
            kind, a, b, pos = norm_cond(c)
            out.append(("cond", kind, a, b, pos == pol))
    return out


def ret_writes(fn):
    """[(bb, kind, detail)] writes to _0 in normal flow; kind: err | residual | ok | call | other"""
    out = []
    nb = fn.normal_blocks()
    for b in fn.blocks:
        if b.i not in nb:
            continue
        for i, s in enumerate(b.stmts):
            if s["k"] == "assign" and s["place"]["l"] == 0 and is_bare(s["place"]):
                rv = s["rv"]
                if rv["k"] == "agg" and rv.get("adt") == "core::result::Result":
                    out.append((b.i, "err" if rv["variant"] == "Err" else "ok", rv))
                else:
                    out.append((b.i, "other", rv))
        t = b.term
        if t["k"] == "call" and t["dest"]["l"] == 0 and is_bare(t["dest"]):
            ci = callee_of(t)
            if ci and (ci.get("trait") or "").endswith("::FromResidual"):
                out.append((b.i, "residual", t))
            else:
                out.append((b.i, "call", t))
    return out


def returns_result(fn):
    out = fn.j.get("output") or (fn.local_ty(0) if fn.has_body else "") or ""
    return out.startswith("core::result::Result<")


def ok_sinks(fn):
    """blocks that may write a non-Err value to the return place"""
    return {b for (b, k, _) in ret_writes(fn) if k in ("ok", "call", "other")}


def call_sinks(fn, pred):
    """blocks whose terminator is a call satisfying pred(callee_info, term)"""
    return {b for b, t, ci in fn.calls() if pred(ci, t)}


def sep(fn, pass_edges, sinks, start=0):
    """sinks still reachable from start when every PASS edge is removed (empty set = separated)"""
    r = fn.reach(start, removed=frozenset(pass_edges))
    return r & set(sinks)


def fail_is_error(fn, edge, sinks=()):
    """the FAIL side of a refusal: from edge target every write to _0 is Err/residual, at least one exists,
    and no sink is reachable"""
    r = fn.reach(edge[1])
    ws = [(b, k) for (b, k, _) in ret_writes(fn) if b in r]
    if not ws:
        return False
    if any(k not in ("err", "residual") for _, k in ws):
        return False
    if r & set(sinks):
        return False
    return True


def only_err(fn):
    ws = ret_writes(fn)
    return bool(ws) and all(k in ("err", "residual") for _, k, _ in ws)
