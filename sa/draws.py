"""Engine E: entropy ownership and draw sites."""
from .mir import callee_of
from .terms import mentions, subterms, is_call

ENTROPY_CRATES = {"getrandom", "rand", "rand_chacha", "rand_pcg", "rand_xorshift", "fastrand", "oorandom", "nanorand"}
ENTROPY_PATH_PARTS = ("OsRng", "SysRng", "SeedableRng", "std::time::", "SystemTime", "Instant::", "RandomState",
                      "::HashMap::", "::HashSet::", "hash::map::", "hash::set::", "std::process::id",
                      "thread::current", "std::env::", "getrandom::")
ENTROPY_FN_NAMES = {"thread_rng", "from_entropy", "from_os_rng", "try_from_os_rng", "seed_from_u64", "from_seed",
                    "from_rng", "os_rng", "rng"}


def entropy_sources(prog):
    """calls / casts in analysed code that reach an entropy source other than a caller-supplied rng"""
    out = []
    for f in prog.fns.values():
        if not f.has_body:
            continue
        for bb, t, ci in f.calls():
            if not ci:
                continue
            p = ci["path"]
            c = ci.get("crate", "")
            if c in ENTROPY_CRATES or any(x in p for x in ENTROPY_PATH_PARTS) or \
                    (ci.get("name") in ENTROPY_FN_NAMES and not c.startswith("frost")):
                out.append((f, "call:" + p, bb))
        nb = f.normal_blocks()
        for b in f.blocks:
            if b.i not in nb:
                continue
            for s in b.stmts:
                if s["k"] == "assign" and s["rv"]["k"] == "cast" and s["rv"]["kind"] in ("PointerExposeProvenance", "PointerExposeAddress"):
                    if s["span"].get("exp"):
                        continue  # compiler / macro inserted pointer checks (vec!, debug assertions)
                    out.append((f, "cast:address-to-int", b.i))
        for l in f.locals:
            ty = l["ty"]
            if any(x in ty for x in ("RandomState", "std::collections::hash", "SystemTime", "Instant")):
                out.append((f, "type:" + ty[:60], 0))
                break
    return out


def rng_params(f):
    """argument locals whose type is (a reference to) a type parameter bounded by CryptoRng / RngCore"""
    bounded = {b[0] for b in (f.j.get("bounds") or []) if b[1].rsplit("::", 1)[-1] in ("CryptoRng", "RngCore", "Rng", "TryCryptoRng", "TryRngCore")}
    out = []
    ins = f.j.get("inputs") or []
    for i, ty in enumerate(ins):
        base = ty.replace("&mut ", "").replace("&", "").strip()
        if base in bounded:
            out.append(i + 1)
    return out


# ---------------- draw summaries: how many primitive draws an operation makes, as a term over loop multiplicities ----------------
#
# summary(f) = list of (primitive, factors): one entry per primitive draw site reached through calls that forward the
# caller's rng; factors are the multiplicities of the enclosing constructs:
#   ("n", term)        a counted loop / `.take(term)` over the draw: executed `term` times (term over f's arguments)
#   ("each", term)     once per element of the iterated collection `term`
#   ("retry", fnkey)   a loop without an iterator (rejection sampling)
#   ("maybe", fnkey)   the site is not on every successful path
# Call sites instantiate the callee's summary with the actual arguments; `n(const k)` folds into the coefficient.
# The result is independent of how the draw is routed (through preprocess(1), a helper, or written inline).

PRIMITIVE_TRAITS = ("::Field", "RngCore", "::Rng", "CryptoRng", "TryRngCore")


def _rng_hit(f, v, bb, t, rp, is_clo):
    from .lib import base_of
    a = v.call_args(bb)
    if is_clo:
        rngp = lambda x: x[0] == "field" and x[1] == ("arg", 1)
        return any(mentions(x, rngp) and "&mut" in ty for x, ty in zip(a, t["arg_tys"]))
    rngp = lambda x: x[0] == "arg" and x[1] in rp
    for x, ty in zip(a, t["arg_tys"]):
        if x[0] == "closure" and any(base_of(c) in [("arg", i) for i in rp] for c in x[2]):
            return True
        if mentions(x, rngp) and (ty.startswith("&mut") or ty in [f.j["inputs"][i - 1] for i in rp]):
            if base_of(x) in [("arg", i) for i in rp] or x[0] == "closure":
                return True
    return False


def _fill_until(prog, f, v, lp):
    """`while vec.len() < n { ..; vec.push(x); }` with vec empty before the loop and exactly one push per iteration: the loop
    runs n times.  Returns the term n, else None."""
    from .lib import body_reach, is_call, site_bb
    from .seq import _is_empty_ctor
    from .guards import ret_writes
    hdr_tests = [(e, fa) for (e, fa) in v.own_facts if e[0] in lp["body"] and e[1] not in lp["body"] and fa[0] == "cond" and fa[1] == "lt"]
    exits = [(b, t) for b in lp["body"] for (t, _l) in f.succs()[b] if t not in lp["body"]]
    if len(hdr_tests) != 1 or len({(b, t) for b, t in exits if f.reach(t) & {x for x in f.normal_blocks() if f.blocks[x].term["k"] == "return"}}) != 1:
        return None
    (e, fa) = hdr_tests[0]
    if fa[4]:                      # leaves the loop when `len < n` is false
        return None
    ln, n = fa[2], fa[3]
    if not (is_call(ln, name="len") and len(ln[2]) == 1) or n is None:
        return None
    vec = ln[2][0]
    base = vec[1] if vec[0] == "mut" else vec
    if not _is_empty_ctor(base):
        return None
    ops = [o for o in (vec[2] if vec[0] == "mut" else ()) if o[1] not in ("reserve",)]
    if len(ops) != 1 or ops[0][1] != "push":
        return None
    pb = site_bb(ops[0][3], f)
    if pb is None or pb not in lp["body"] or any(pb in o["body"] and o["body"] < lp["body"] for o in f.loops()):
        return None
    _, back = body_reach(f, lp, [lp["header"]], removed_blocks={pb})
    if back:
        return None                # an iteration can complete without pushing
    if mentions(n, lambda s_: s_ == vec or s_ == base):
        return None
    return n


def _trip(prog, f, v, bb):
    """multiplicity factors of block bb from the loops that contain it"""
    from .lib import loop_report, body_reach, strip_iter_calls
    out = []
    for lp in loop_report(prog, f):
        if bb not in lp["body"]:
            continue
        it = lp["iter_term"]
        fill = _fill_until(prog, f, v, lp) if it is None else None
        if fill is not None:
            out.append(("n", fill))        # `while v.len() < n { ..; v.push(x) }` from an empty v: n iterations
        elif it is None:
            out.append(("retry", f.key))
        else:
            src = strip_iter_calls(it)
            rng = _range_len(src)
            out.append(("n", rng) if rng is not None else ("each", src))
        _, back = body_reach(f, lp, list(lp["some_targets"]) or [lp["header"]], removed_blocks={bb})
        if back and it is not None:
            out.append(("maybe", f.key))
    return out


def _strip(t):
    from .lib import strip_iter_calls
    return strip_iter_calls(t)


def _range_len(t):
    """length of `a..b` as a term, when a is the constant 0"""
    if isinstance(t, tuple) and t and t[0] == "agg" and (t[2] or "").endswith("ops::range::Range"):
        d = dict(t[4])
        s, e = d.get("start"), d.get("end")
        if s is not None and s[0] == "const" and s[2] == 0:
            return e
    return None


def _unconditional(f, bb):
    """every successful return passes through bb"""
    from .guards import ret_writes, returns_result
    ins = frozenset((p, bb) for (p, _lab) in f.preds().get(bb, ()))
    r = f.reach(0, removed=ins) if bb != 0 else set()
    if returns_result(f):
        sinks = {b for (b, k, _) in ret_writes(f) if k in ("ok", "call", "other")}
    else:
        sinks = {b for b in f.normal_blocks() if f.blocks[b].term["k"] == "return"}
    return not (r & sinks)


def draw_summary(prog, f, memo=None, stack=()):
    from .lib import FnView, subst, closure_body
    memo = memo if memo is not None else {}
    if f.key in memo:
        return memo[f.key]
    if f.key in stack:
        return [("recursion:" + f.key, ())]
    is_clo = f.kind == "Closure"
    rp = rng_params(f)
    v = FnView.get(prog, f)
    out = []
    for (bb, t, ci) in f.calls():
        if not ci or not _rng_hit(f, v, bb, t, rp, is_clo):
            continue
        factors = _trip(prog, f, v, bb)
        in_loop = any(bb in lp["body"] for lp in f.loops())
        if not in_loop and not _unconditional(f, bb):
            factors.append(("maybe", f.key))
        args = v.call_args(bb)
        callees = [g for g in prog.resolve_call(ci, generic_join=True) if g.has_body and g.crate.startswith("frost")] \
            if not _is_primitive(ci) else []
        clos = [a for a in args if a[0] == "closure"]
        if clos:
            # the rng travels inside a closure handed to an iterator adaptor: the closure's draws, once per produced item
            ret = v.cx.local(0)
            for c in clos:
                cf = prog.fns.get(c[1])
                if cf is None:
                    out.append(("opaque-closure", tuple(factors)))
                    continue
                mult = [("each", ("closure-items", f.key))]
                if ci.get("name") in ("map", "for_each", "try_for_each", "fold", "try_fold") and (ci.get("trait") or "").endswith("Iterator") and args:
                    # the closure runs once per element of the traversed collection (no element-dropping adaptor before it)
                    from .lib import seq_view
                    sv_ = seq_view(args[0])
                    if sv_ is not None and not sv_["adaptors"] and not sv_["drop_front"] and not sv_["drop_back"] and \
                            sv_["base"][0] not in ("agg",) and _range_len(_strip(args[0])) is None:
                        mult = [("each", sv_["base"])]
                rl = _range_len(_strip(args[0])) if args else None
                if rl is not None:
                    mult = [("n", rl)]      # `(0..k).map(|_| draw)`: once per element of the range
                for s in subterms(ret):
                    if is_call(s, name="take") and len(s[2]) == 2 and mentions(s[2][0], lambda x: x == c):
                        mult = [("n", s[2][1])]
                caps = [(lambda x, i=i: x == ("field", ("arg", 1), None, str(i)), cap) for i, cap in enumerate(c[2])]
                for (prim, fs) in draw_summary(prog, cf, memo, stack + (f.key,)):
                    out.append((prim, tuple(factors) + tuple(mult) + tuple(_sub_factor(x, caps) for x in fs)))
            continue
        if not callees:
            out.append((_prim_name(ci), tuple(factors)))
            continue
        sums = []
        for g in callees:
            m = [(lambda x, i=i: x == ("arg", i + 1), a) for i, a in enumerate(args)]
            sums.append(sorted(((prim, tuple(factors) + tuple(_sub_factor(x, m) for x in fs))
                                for (prim, fs) in draw_summary(prog, g, memo, stack + (f.key,))), key=repr))
        if any(s != sums[0] for s in sums[1:]):
            out.append(("implementations-disagree:" + ci["name"], tuple(factors)))
        else:
            out.extend(sums[0])
    memo[f.key] = out
    return out


def _is_primitive(ci):
    tr = ci.get("trait") or ""
    return any(tr.endswith(x) for x in PRIMITIVE_TRAITS) or not (ci.get("crate") or "").startswith("frost")


def _prim_name(ci):
    tr = (ci.get("trait") or "").rsplit("::", 1)[-1]
    return (tr + "::" if tr else "") + ci["name"]


def _sub_factor(x, mapping):
    from .lib import subst
    if x[0] in ("n", "each") and isinstance(x[1], tuple):
        return (x[0], subst(x[1], mapping))
    return x


def normal_form(summary):
    """{primitive: {sorted factor strings: coefficient}} with n(const k) folded into the coefficient"""
    from .terms import fmt, strip_casts
    out = {}
    for (prim, fs) in summary:
        coef = 1
        names = []
        for x in fs:
            if x[0] == "n":
                t = strip_casts(x[1])[0]
                if t[0] == "const" and isinstance(t[2], int):
                    coef *= t[2]
                    continue
                names.append("n(%s)" % fmt(t))
            elif x[0] == "each":
                names.append("each(%s)" % (fmt(x[1]) if x[1][0] != "closure-items" else "items of " + x[1][1].rsplit("::", 1)[-1]))
            else:
                names.append("%s(%s)" % (x[0], x[1].rsplit("::", 1)[-1]))
        k = " * ".join(sorted(names)) or "1"
        d = out.setdefault(prim, {})
        d[k] = d.get(k, 0) + coef
    return {p: {k: c for k, c in d.items() if c} for p, d in out.items()}
