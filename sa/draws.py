"""Engine E: entropy ownership and draw sites."""
from .mir import callee_of
from .terms import mentions, subterms, is_call

ENTROPY_CRATES = {"getrandom", "rand", "rand_chacha", "rand_pcg", "rand_xorshift", "fastrand", "oorandom", "nanorand"}
ENTROPY_PATH_PARTS = ("OsRng", "SysRng", "SeedableRng", "std::time::", "SystemTime", "Instant::", "RandomState",
                      "::HashMap::", "::HashSet::", "hash::map::", "hash::set::", "std::process::id",
                      "thread::current", "std::env::", "getrandom::")
ENTROPY_FN_NAMES = {"thread_rng", "from_entropy", "from_os_rng", "try_from_os_rng", "seed_from_u64", "from_seed",
                    "from_rng", "os_rng", "rng"}


def entropy_sources(prog):
    """calls / casts in analysed code that reach an entropy source other than a caller-supplied rng"""
    out = []
    for f in prog.fns.values():
        if not f.has_body:
            continue
        for bb, t, ci in f.calls():
            if not ci:
                continue
            p = ci["path"]
            c = ci.get("crate", "")
            if c in ENTROPY_CRATES or any(x in p for x in ENTROPY_PATH_PARTS) or \
                    (ci.get("name") in ENTROPY_FN_NAMES and not c.startswith("frost")):
                out.append((f, "call:" + p, bb))
        nb = f.normal_blocks()
        for b in f.blocks:
            if b.i not in nb:
                continue
            for s in b.stmts:
                if s["k"] == "assign" and s["rv"]["k"] == "cast" and s["rv"]["kind"] in ("PointerExposeProvenance", "PointerExposeAddress"):
                    if s["span"].get("exp"):
                        continue  # compiler / macro inserted pointer checks (vec!, debug assertions)
                    out.append((f, "cast:address-to-int", b.i))
        for l in f.locals:
            ty = l["ty"]
            if any(x in ty for x in ("RandomState", "std::collections::hash", "SystemTime", "Instant")):
                out.append((f, "type:" + ty[:60], 0))
                break
    return out


def rng_params(f):
    """argument locals whose type is (a reference to) a type parameter bounded by CryptoRng / RngCore"""
    bounded = {b[0] for b in (f.j.get("bounds") or []) if b[1].rsplit("::", 1)[-1] in ("CryptoRng", "RngCore", "Rng", "TryCryptoRng", "TryRngCore")}
    out = []
    ins = f.j.get("inputs") or []
    for i, ty in enumerate(ins):
        base = ty.replace("&mut ", "").replace("&", "").strip()
        if base in bounded:
            out.append(i + 1)
    return out
