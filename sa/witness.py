"""Engine I: compile-fail witnesses (thorough tier).  `cargo +nightly test --doc` on /verif/witness, which
path-depends on /repo; rustdoc only *compiles* the witnesses (the one twin that would run is `no_run`-free but
trivial: it constructs an identifier).  Each witness needs its error code AND a compiling twin."""
import os, re, shutil, subprocess
from .facts import VERIF, REPO, CACHE


def run(ctx):
    w = os.path.join(VERIF, "witness")
    shutil.copy(os.path.join(REPO, "Cargo.lock"), os.path.join(w, "Cargo.lock"))
    env = dict(os.environ)
    env["CARGO_TARGET_DIR"] = os.path.join(CACHE, "target", "witness")
    env["CARGO_NET_OFFLINE"] = "true"
    r = subprocess.run(["cargo", "+nightly", "test", "--doc", "--offline"], cwd=w, env=env, capture_output=True, text=True)
    out = r.stdout + r.stderr
    tests = re.findall(r"test src/lib.rs - (\w+) \(line (\d+)\)( - compile fail| - compile)? \.\.\. (\w+)", out)
    if not tests:
        ctx.violation("WIT", "witness", "did-not-run", "the witness doctests did not run: %s" % out[-1500:])
        return
    by = {}
    for name, line, cf, res in tests:
        by.setdefault(name, []).append((cf.strip() == "- compile fail", res))
    for name, rs in sorted(by.items()):
        fails = [r for cf, r in rs if cf]
        twins = [r for cf, r in rs if not cf]
        good = bool(fails) and bool(twins) and all(r == "ok" for r in fails + twins)
        ctx.check(good, "WIT", "witness::" + name, "compile-fail-with-code+compiling-twin",
                  "witness %s: compile_fail results %s, twin results %s — the type-level guarantee no longer holds (or "
                  "the witness is broken)" % (name, fails, twins))
    ctx.extra["witness_tests"] = len(tests)
