// Positive controls: every zero-count rule must fire on this file in every run
// (a rule that silently matches nothing passes forever).  Compiled only by the
// fact-extraction driver; never linked, never run.
#![allow(dead_code)]
use std::collections::HashMap;
use std::time::{SystemTime, UNIX_EPOCH};

pub struct Secret(pub [u8; 32]);

// entropy sources other than the caller's rng
pub fn clock_seed() -> u64 {
    SystemTime::now().duration_since(UNIX_EPOCH).map(|d| d.as_nanos() as u64).unwrap_or(0)
}
pub fn hash_order() -> usize {
    let mut m: HashMap<u32, u32> = HashMap::new();
    m.insert(1, 2);
    m.len()
}
pub fn address_entropy(x: &u8) -> usize {
    x as *const u8 as usize
}

// unreviewed panic sites on argument data
pub fn unwrap_arg(x: Option<u8>) -> u8 {
    x.unwrap()
}
pub fn index_arg(v: &[u8], i: usize) -> u8 {
    v[i]
}
pub fn narrow_len(v: &[u8], t: u16) -> Result<(), ()> {
    if v.len() as u16 != t {
        return Err(());
    }
    Ok(())
}

// a secret shown by Debug
impl core::fmt::Debug for Secret {
    fn fmt(&self, f: &mut core::fmt::Formatter<'_>) -> core::fmt::Result {
        f.debug_tuple("Secret").field(&self.0).finish()
    }
}

pub static mut COUNTER: u32 = 0;
