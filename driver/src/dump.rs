use crate::json::J;
use rustc_hir::def::DefKind;
use rustc_hir::def_id::{DefId, LocalDefId};
use rustc_middle::mir::*;
use rustc_middle::ty::print::{with_crate_prefix, with_no_trimmed_paths, with_no_visible_paths};
use rustc_middle::ty::{self, Instance, Ty, TyCtxt, TypingEnv};
use rustc_span::Span;

pub fn dump_crate<'tcx>(tcx: TyCtxt<'tcx>, dir: &str) {
    let krate = tcx.crate_name(rustc_hir::def_id::LOCAL_CRATE).to_string();
    let out = with_crate_prefix!(with_no_visible_paths!(with_no_trimmed_paths!(build(tcx, &krate))));
    let mut s = String::with_capacity(1 << 24);
    out.write(&mut s);
    let _ = std::fs::create_dir_all(dir);
    let tmp = format!("{}/.{}.json.tmp{}", dir, krate, std::process::id());
    std::fs::write(&tmp, s).expect("write facts");
    std::fs::rename(&tmp, format!("{}/{}.json", dir, krate)).expect("rename facts");
}

fn build<'tcx>(tcx: TyCtxt<'tcx>, krate: &str) -> J {
    let mut fns = Vec::new();
    let mut adts = Vec::new();
    let mut impls = Vec::new();
    let mut traits = Vec::new();
    let mut statics = Vec::new();
    let mut consts = Vec::new();

    let items = tcx.hir_crate_items(());
    for ldid in items.definitions() {
        let did = ldid.to_def_id();
        match tcx.def_kind(did) {
            DefKind::Fn | DefKind::AssocFn => {
                if !(tcx.is_mir_available(did) && tcx.hir_maybe_body_owned_by(ldid).is_some()) {
                    fns.push(dump_fn_decl(tcx, ldid));
                }
            }
            DefKind::Struct | DefKind::Enum | DefKind::Union => adts.push(dump_adt(tcx, did)),
            DefKind::Impl { .. } => impls.push(dump_impl(tcx, did)),
            DefKind::Trait => traits.push(dump_trait(tcx, did)),
            DefKind::Const { .. } | DefKind::AssocConst { .. } => {
                let ty = tcx.type_of(did).instantiate_identity().skip_norm_wip();
                let g = tcx.generics_of(did);
                if g.count() == 0 && (ty.is_integral() || format!("{}", ty).contains("str")) {
                    if let Ok(val) = tcx.const_eval_poly(did) {
                        let c = Const::Val(val, ty);
                        consts.push(
                            J::obj()
                                .set("path", J::s(tcx.def_path_str(did)))
                                .set("ty", ty_s(ty))
                                .set("val", J::s(format!("{}", c))),
                        );
                    }
                }
            }
            DefKind::Static { mutability, .. } => {
                statics.push(
                    J::obj()
                        .set("path", J::s(tcx.def_path_str(did)))
                        .set("mut", J::Bool(mutability.is_mut()))
                        .set("ty", J::s(format!("{}", tcx.type_of(did).instantiate_identity().skip_norm_wip())))
                        .set("span", span_j(tcx, tcx.def_span(did))),
                );
            }
            _ => {}
        }
    }
    for ldid in tcx.hir_body_owners() {
        let did = ldid.to_def_id();
        if matches!(tcx.def_kind(did), DefKind::Fn | DefKind::AssocFn | DefKind::Closure)
            && tcx.is_mir_available(did)
        {
            fns.push(dump_fn(tcx, ldid));
        }
    }
    J::obj()
        .set("crate", J::s(krate))
        .set("fns", J::Arr(fns))
        .set("adts", J::Arr(adts))
        .set("impls", J::Arr(impls))
        .set("traits", J::Arr(traits))
        .set("statics", J::Arr(statics))
        .set("consts", J::Arr(consts))
}

fn span_j<'tcx>(tcx: TyCtxt<'tcx>, sp: Span) -> J {
    let sm = tcx.sess.source_map();
    let cs = sp.source_callsite();
    let lo = sm.lookup_char_pos(cs.lo());
    let hi = sm.lookup_char_pos(cs.hi());
    let file = format!("{}", lo.file.name.prefer_local_unconditionally());
    let mut o = J::obj()
        .set("file", J::s(file))
        .set("line", J::Int(lo.line as i128))
        .set("col", J::Int(lo.col.0 as i128))
        .set("eline", J::Int(hi.line as i128));
    if sp.from_expansion() {
        let ed = sp.ctxt().outer_expn_data();
        o.put("exp", J::s(format!("{}:{}", ed.kind.descr(), macro_name(&ed.kind))));
        // outermost expansion (e.g. derive(Zeroize))
        let mut cur = sp;
        let mut outer = ed.clone();
        loop {
            let d = cur.ctxt().outer_expn_data();
            if d.is_root() {
                break;
            }
            outer = d.clone();
            cur = d.call_site;
        }
        o.put("oexp", J::s(format!("{}:{}", outer.kind.descr(), macro_name(&outer.kind))));
    }
    o
}

fn macro_name(k: &rustc_span::hygiene::ExpnKind) -> String {
    match k {
        rustc_span::hygiene::ExpnKind::Macro(_, name) => name.to_string(),
        other => format!("{:?}", other),
    }
}

fn ty_s<'tcx>(t: Ty<'tcx>) -> J {
    J::s(format!("{}", t))
}

fn adt_path_of<'tcx>(tcx: TyCtxt<'tcx>, t: Ty<'tcx>) -> Option<String> {
    match t.kind() {
        ty::Adt(def, _) => Some(tcx.def_path_str(def.did())),
        _ => None,
    }
}

fn dump_adt<'tcx>(tcx: TyCtxt<'tcx>, did: DefId) -> J {
    let def = tcx.adt_def(did);
    let mut variants = Vec::new();
    for v in def.variants().iter() {
        let mut fields = Vec::new();
        for f in v.fields.iter() {
            let fty = tcx.type_of(f.did).instantiate_identity().skip_norm_wip();
            fields.push(
                J::obj()
                    .set("name", J::s(f.name.to_string()))
                    .set("ty", ty_s(fty))
                    .set("adt", adt_path_of(tcx, fty).map(J::s).unwrap_or(J::Null))
                    .set("vis", J::s(format!("{:?}", f.vis)))
                    .set("pub", J::Bool(f.vis.is_public())),
            );
        }
        variants.push(J::obj().set("name", J::s(v.name.to_string())).set("fields", J::Arr(fields)));
    }
    let is_copy = {
        let t = tcx.type_of(did).instantiate_identity().skip_norm_wip();
        let te = TypingEnv::post_analysis(tcx, did);
        tcx.type_is_copy_modulo_regions(te, t)
    };
    J::obj()
        .set("path", J::s(tcx.def_path_str(did)))
        .set("kind", J::s(format!("{:?}", def.adt_kind())))
        .set("variants", J::Arr(variants))
        .set("copy", J::Bool(is_copy))
        .set("has_dtor", J::Bool(def.destructor(tcx).is_some()))
        .set("vis", J::s(format!("{:?}", tcx.visibility(did))))
        .set("span", span_j(tcx, tcx.def_span(did)))
}

fn dump_impl<'tcx>(tcx: TyCtxt<'tcx>, did: DefId) -> J {
    let self_ty = tcx.type_of(did).instantiate_identity().skip_norm_wip();
    let mut o = J::obj()
        .set("id", J::s(tcx.def_path_str(did)))
        .set("self_ty", ty_s(self_ty))
        .set("self_adt", adt_path_of(tcx, self_ty).map(J::s).unwrap_or(J::Null));
    if let Some(tr) = tcx.impl_opt_trait_ref(did) {
        let tr = tr.instantiate_identity().skip_norm_wip();
        o.put("trait", J::s(tcx.def_path_str(tr.def_id)));
        o.put("trait_ref", J::s(format!("{}", tr)));
        o.put(
            "trait_args",
            J::Arr(tr.args.iter().skip(1).map(|a| J::s(format!("{}", a))).collect()),
        );
    } else {
        o.put("trait", J::Null);
    }
    let sp = tcx.def_span(did);
    o.put("span", span_j(tcx, sp));
    let mut items = Vec::new();
    for &it in tcx.associated_item_def_ids(did) {
        items.push(
            J::obj()
                .set("name", J::s(tcx.item_name(it).to_string()))
                .set("kind", J::s(format!("{:?}", tcx.def_kind(it))))
                .set("key", J::s(tcx.def_path_str(it))),
        );
    }
    o.put("items", J::Arr(items));
    o
}

fn dump_trait<'tcx>(tcx: TyCtxt<'tcx>, did: DefId) -> J {
    let mut items = Vec::new();
    for &it in tcx.associated_item_def_ids(did) {
        let ai = tcx.associated_item(it);
        items.push(
            J::obj()
                .set("name", J::s(tcx.item_name(it).to_string()))
                .set("kind", J::s(format!("{:?}", tcx.def_kind(it))))
                .set("key", J::s(tcx.def_path_str(it)))
                .set("has_default", J::Bool(ai.defaultness(tcx).has_value())),
        );
    }
    J::obj().set("path", J::s(tcx.def_path_str(did))).set("items", J::Arr(items))
}

fn fn_header<'tcx>(tcx: TyCtxt<'tcx>, ldid: LocalDefId) -> J {
    let did = ldid.to_def_id();
    let kind = tcx.def_kind(did);
    let mut o = J::obj()
        .set("key", J::s(tcx.def_path_str(did)))
        .set("name", J::s(tcx.opt_item_name(did).map(|s| s.to_string()).unwrap_or_default()))
        .set("kind", J::s(format!("{:?}", kind)))
        .set("span", span_j(tcx, tcx.def_span(did)));
    if matches!(kind, DefKind::Fn | DefKind::AssocFn) {
        o.put("vis", J::s(format!("{:?}", tcx.visibility(did))));
        o.put("pub", J::Bool(tcx.visibility(did).is_public()));
        let ev = tcx.effective_visibilities(());
        o.put("reachable", J::Bool(ev.is_reachable(ldid)));
        let sig = tcx.fn_sig(did).instantiate_identity().skip_norm_wip().skip_binder();
        o.put("inputs", J::Arr(sig.inputs().iter().map(|t| ty_s(*t)).collect()));
        o.put("output", ty_s(sig.output()));
    }
    // generic params (names), so that the python side can substitute
    let g = tcx.generics_of(did);
    let mut gp = Vec::new();
    let mut cur = Some(g);
    let mut stack = Vec::new();
    while let Some(gg) = cur {
        stack.push(gg);
        cur = gg.parent.map(|p| tcx.generics_of(p));
    }
    for gg in stack.iter().rev() {
        for p in gg.own_params.iter() {
            gp.push(J::s(p.name.to_string()));
        }
    }
    o.put("generics", J::Arr(gp));
    let mut bounds = Vec::new();
    let preds = tcx.predicates_of(did).instantiate_identity(tcx);
    for (clause, _) in preds.into_iter() {
        let clause = clause.skip_norm_wip();
        if let Some(tp) = clause.as_trait_clause() {
            let tp = tp.skip_binder();
            bounds.push(J::Arr(vec![
                J::s(format!("{}", tp.self_ty())),
                J::s(tcx.def_path_str(tp.def_id())),
            ]));
        }
    }
    o.put("bounds", J::Arr(bounds));
    let parent = tcx.parent(did);
    match tcx.def_kind(parent) {
        DefKind::Impl { .. } => {
            o.put("impl", J::s(tcx.def_path_str(parent)));
            let st = tcx.type_of(parent).instantiate_identity().skip_norm_wip();
            o.put("self_ty", ty_s(st));
            o.put("self_adt", adt_path_of(tcx, st).map(J::s).unwrap_or(J::Null));
            if let Some(tr) = tcx.impl_opt_trait_ref(parent) {
                let tr = tr.instantiate_identity().skip_norm_wip();
                o.put("impl_trait", J::s(tcx.def_path_str(tr.def_id)));
                o.put("impl_trait_ref", J::s(format!("{}", tr)));
            }
        }
        DefKind::Trait => {
            o.put("in_trait", J::s(tcx.def_path_str(parent)));
        }
        _ => {}
    }
    if kind == DefKind::Closure {
        let root = tcx.typeck_root_def_id(did);
        o.put("root", J::s(tcx.def_path_str(root)));
        o.put("parent_fn", J::s(tcx.def_path_str(tcx.parent(did))));
    }
    o
}

fn dump_fn_decl<'tcx>(tcx: TyCtxt<'tcx>, ldid: LocalDefId) -> J {
    fn_header(tcx, ldid).set("body", J::Null)
}

struct Cx<'a, 'tcx> {
    tcx: TyCtxt<'tcx>,
    body: &'a Body<'tcx>,
    te: TypingEnv<'tcx>,
}

fn dump_fn<'tcx>(tcx: TyCtxt<'tcx>, ldid: LocalDefId) -> J {
    let did = ldid.to_def_id();
    let body = tcx.optimized_mir(did);
    let cx = Cx { tcx, body, te: TypingEnv::post_analysis(tcx, did) };
    let mut o = fn_header(tcx, ldid);
    o.put("arg_count", J::Int(body.arg_count as i128));
    let mut locals = Vec::new();
    for (l, d) in body.local_decls.iter_enumerated() {
        let mut lo = J::obj()
            .set("i", J::Int(l.as_usize() as i128))
            .set("ty", ty_s(d.ty))
            .set("adt", adt_path_of(tcx, peel_refs(d.ty)).map(J::s).unwrap_or(J::Null))
            .set("mut", J::Bool(d.mutability.is_mut()));
        if let ty::Closure(cdid, _) = peel_refs(d.ty).kind() {
            lo.put("closure", J::s(tcx.def_path_str(*cdid)));
        }
        if let ty::FnDef(fdid, _) = d.ty.kind() {
            lo.put("fndef", J::s(tcx.def_path_str(*fdid)));
        }
        locals.push(lo);
    }
    o.put("locals", J::Arr(locals));
    let mut names = Vec::new();
    for v in body.var_debug_info.iter() {
        if let VarDebugInfoContents::Place(p) = &v.value {
            names.push(J::obj().set("name", J::s(v.name.to_string())).set("place", cx.place(p)));
        }
    }
    o.put("vars", J::Arr(names));
    // closure upvar names
    if tcx.def_kind(did) == DefKind::Closure {
        let mut ups = Vec::new();
        for cap in tcx.closure_captures(ldid) {
            ups.push(J::obj()
                .set("name", J::s(cap.to_string(tcx)))
                .set("by_ref", J::Bool(cap.is_by_ref())));
        }
        o.put("upvars", J::Arr(ups));
    }
    let mut blocks = Vec::new();
    for (bb, data) in body.basic_blocks.iter_enumerated() {
        let mut stmts = Vec::new();
        for st in data.statements.iter() {
            if let Some(j) = cx.stmt(st) {
                stmts.push(j);
            }
        }
        let term = data.terminator();
        blocks.push(
            J::obj()
                .set("i", J::Int(bb.as_usize() as i128))
                .set("cleanup", J::Bool(data.is_cleanup))
                .set("stmts", J::Arr(stmts))
                .set("term", cx.term(term)),
        );
    }
    o.put("blocks", J::Arr(blocks));
    o
}

fn peel_refs<'tcx>(mut t: Ty<'tcx>) -> Ty<'tcx> {
    loop {
        match t.kind() {
            ty::Ref(_, inner, _) => t = *inner,
            ty::RawPtr(inner, _) => t = *inner,
            _ => return t,
        }
    }
}

impl<'a, 'tcx> Cx<'a, 'tcx> {
    fn place(&self, p: &Place<'tcx>) -> J {
        let tcx = self.tcx;
        let mut proj = Vec::new();
        for (base, elem) in p.iter_projections() {
            let bty = base.ty(&self.body.local_decls, tcx);
            let j = match elem {
                ProjectionElem::Deref => J::s("*"),
                ProjectionElem::Field(f, fty) => {
                    let mut o = J::obj().set("f", J::Int(f.as_usize() as i128)).set("ty", ty_s(fty));
                    match bty.ty.kind() {
                        ty::Adt(def, _) => {
                            let vidx = bty.variant_index.unwrap_or(rustc_abi::FIRST_VARIANT);
                            let v = def.variant(vidx);
                            o.put("adt", J::s(tcx.def_path_str(def.did())));
                            o.put("n", J::s(v.fields[f].name.to_string()));
                            if def.is_enum() {
                                o.put("variant", J::s(v.name.to_string()));
                            }
                        }
                        ty::Closure(..) => o.put("upvar", J::Bool(true)),
                        ty::Tuple(..) => o.put("tuple", J::Bool(true)),
                        _ => {}
                    }
                    o
                }
                ProjectionElem::Index(l) => J::obj().set("idx", J::Int(l.as_usize() as i128)),
                ProjectionElem::ConstantIndex { offset, min_length, from_end } => J::obj()
                    .set("cidx", J::Int(offset as i128))
                    .set("min_length", J::Int(min_length as i128))
                    .set("from_end", J::Bool(from_end)),
                ProjectionElem::Subslice { from, to, from_end } => J::obj()
                    .set("subslice", J::Arr(vec![J::Int(from as i128), J::Int(to as i128)]))
                    .set("from_end", J::Bool(from_end)),
                ProjectionElem::Downcast(name, vidx) => J::obj()
                    .set("downcast", J::s(name.map(|s| s.to_string()).unwrap_or_default()))
                    .set("vidx", J::Int(vidx.as_usize() as i128)),
                other => J::obj().set("other", J::s(format!("{:?}", other))),
            };
            proj.push(j);
        }
        J::obj().set("l", J::Int(p.local.as_usize() as i128)).set("p", J::Arr(proj))
    }

    fn konst(&self, c: &ConstOperand<'tcx>) -> J {
        let tcx = self.tcx;
        let ty = c.const_.ty();
        let mut o = J::obj();
        match ty.kind() {
            ty::FnDef(did, args) => {
                o.put("fn", self.callee(*did, args));
            }
            _ => {
                o.put("ty", ty_s(ty));
                o.put("c", J::s(format!("{}", c.const_)));
                if ty.is_integral() || ty.is_bool() || ty.is_char() {
                    if let Some(si) = c.const_.try_eval_scalar_int(tcx, self.te) {
                        let bits = si.to_bits(si.size());
                        o.put("bits", J::s(format!("{}", bits)));
                        o.put("size", J::Int(si.size().bytes() as i128));
                    }
                }
                if let Const::Unevaluated(u, _) = c.const_ {
                    o.put("uneval", J::s(tcx.def_path_str(u.def)));
                }
            }
        }
        o
    }

    fn callee(&self, did: DefId, args: ty::GenericArgsRef<'tcx>) -> J {
        let tcx = self.tcx;
        let mut o = J::obj()
            .set("path", J::s(tcx.def_path_str(did)))
            .set("full", J::s(tcx.def_path_str_with_args(did, args)))
            .set("crate", J::s(tcx.crate_name(did.krate).to_string()))
            .set("gargs", J::Arr(args.iter().map(|a| J::s(format!("{}", a))).collect()))
            .set("name", J::s(tcx.opt_item_name(did).map(|s| s.to_string()).unwrap_or_default()));
        // closure types among generic args (higher-order calls)
        let mut clos = Vec::new();
        for a in args.iter() {
            if let Some(t) = a.as_type() {
                if let ty::Closure(cd, _) = peel_refs(t).kind() {
                    clos.push(J::s(tcx.def_path_str(*cd)));
                }
                if let ty::FnDef(fd, fargs) = peel_refs(t).kind() {
                    clos.push(J::s(format!("fn:{}", tcx.def_path_str_with_args(*fd, fargs))));
                }
            }
        }
        if !clos.is_empty() {
            o.put("closures", J::Arr(clos));
        }
        if let Some(tr) = tcx.trait_of_assoc(did) {
            o.put("trait", J::s(tcx.def_path_str(tr)));
            if let Some(st) = args.types().next() {
                o.put("self_ty", ty_s(st));
                o.put("self_adt", adt_path_of(tcx, peel_refs(st)).map(J::s).unwrap_or(J::Null));
            }
        } else if let DefKind::AssocFn = tcx.def_kind(did) {
            let parent = tcx.parent(did);
            if let DefKind::Impl { .. } = tcx.def_kind(parent) {
                let st = tcx.type_of(parent).instantiate_identity().skip_norm_wip();
                o.put("impl_self_ty", ty_s(st));
                o.put("self_adt", adt_path_of(tcx, st).map(J::s).unwrap_or(J::Null));
                if let Some(tr) = tcx.impl_opt_trait_ref(parent) {
                    let tr = tr.instantiate_identity().skip_norm_wip();
                    o.put("impl_trait", J::s(tcx.def_path_str(tr.def_id)));
                }
            }
        }
        // try to resolve to a concrete instance
        let has_infer = args.iter().any(|a| format!("{:?}", a).contains("?"));
        if !has_infer {
            if let Ok(Some(inst)) = Instance::try_resolve(tcx, self.te, did, args) {
                let rd = inst.def_id();
                if rd != did {
                    o.put("resolved", J::s(tcx.def_path_str(rd)));
                    o.put("resolved_crate", J::s(tcx.crate_name(rd.krate).to_string()));
                    o.put("resolved_full", J::s(tcx.def_path_str_with_args(rd, inst.args)));
                }
                o.put("inst_kind", J::s(inst_kind(&inst.def)));
            }
        }
        o
    }

    fn operand(&self, op: &Operand<'tcx>) -> J {
        match op {
            Operand::Copy(p) => J::obj().set("copy", self.place(p)),
            Operand::Move(p) => J::obj().set("move", self.place(p)),
            Operand::Constant(c) => J::obj().set("const", self.konst(c)),
            #[allow(unreachable_patterns)]
            other => J::obj().set("other", J::s(format!("{:?}", other))),
        }
    }

    fn rvalue(&self, rv: &Rvalue<'tcx>) -> J {
        let tcx = self.tcx;
        match rv {
            Rvalue::Use(op, ..) => J::obj().set("k", J::s("use")).set("op", self.operand(op)),
            Rvalue::Repeat(op, n) => J::obj()
                .set("k", J::s("repeat"))
                .set("op", self.operand(op))
                .set("n", J::s(format!("{}", n))),
            Rvalue::Ref(_, bk, p) => J::obj()
                .set("k", J::s("ref"))
                .set("mut", J::Bool(matches!(bk, BorrowKind::Mut { .. })))
                .set("place", self.place(p)),
            Rvalue::RawPtr(kind, p) => J::obj()
                .set("k", J::s("rawptr"))
                .set("kind", J::s(format!("{:?}", kind)))
                .set("place", self.place(p)),
            Rvalue::Cast(kind, op, ty) => {
                let from = op.ty(&self.body.local_decls, tcx);
                J::obj()
                    .set("k", J::s("cast"))
                    .set("kind", J::s(format!("{:?}", kind)))
                    .set("op", self.operand(op))
                    .set("from", ty_s(from))
                    .set("to", ty_s(*ty))
            }
            Rvalue::BinaryOp(op, ab) => J::obj()
                .set("k", J::s("bin"))
                .set("op", J::s(format!("{:?}", op)))
                .set("a", self.operand(&ab.0))
                .set("b", self.operand(&ab.1))
                .set("aty", ty_s(ab.0.ty(&self.body.local_decls, tcx))),
            Rvalue::UnaryOp(op, a) => J::obj()
                .set("k", J::s("un"))
                .set("op", J::s(format!("{:?}", op)))
                .set("a", self.operand(a))
                .set("aty", ty_s(a.ty(&self.body.local_decls, tcx))),
            Rvalue::Discriminant(p) => {
                let pty = p.ty(&self.body.local_decls, tcx).ty;
                J::obj()
                    .set("k", J::s("discr"))
                    .set("place", self.place(p))
                    .set("adt", adt_path_of(tcx, pty).map(J::s).unwrap_or(J::Null))
                    .set("variants", match pty.kind() {
                        ty::Adt(def, _) if def.is_enum() => J::Arr(
                            def.discriminants(tcx)
                                .map(|(vi, d)| {
                                    J::Arr(vec![
                                        J::s(format!("{}", d.val)),
                                        J::s(def.variant(vi).name.to_string()),
                                    ])
                                })
                                .collect(),
                        ),
                        _ => J::Null,
                    })
            }
            Rvalue::Aggregate(kind, ops) => {
                let mut o = J::obj().set("k", J::s("agg"));
                match &**kind {
                    AggregateKind::Array(t) => {
                        o.put("agg", J::s("array"));
                        o.put("elem", ty_s(*t));
                    }
                    AggregateKind::Tuple => o.put("agg", J::s("tuple")),
                    AggregateKind::Adt(did, vidx, _args, _, _) => {
                        let def = tcx.adt_def(*did);
                        let v = def.variant(*vidx);
                        o.put("agg", J::s("adt"));
                        o.put("adt", J::s(tcx.def_path_str(*did)));
                        o.put("variant", J::s(v.name.to_string()));
                        o.put(
                            "fields",
                            J::Arr(v.fields.iter().map(|f| J::s(f.name.to_string())).collect()),
                        );
                    }
                    AggregateKind::Closure(did, _) => {
                        o.put("agg", J::s("closure"));
                        o.put("closure", J::s(tcx.def_path_str(*did)));
                    }
                    other => {
                        o.put("agg", J::s("other"));
                        o.put("dbg", J::s(format!("{:?}", other)));
                    }
                }
                o.put("ops", J::Arr(ops.iter().map(|x| self.operand(x)).collect()));
                o
            }
            Rvalue::CopyForDeref(p) => J::obj()
                .set("k", J::s("use"))
                .set("op", J::obj().set("copy", self.place(p))),
            other => J::obj().set("k", J::s("other")).set("dbg", J::s(format!("{:?}", other))),
        }
    }

    fn stmt(&self, st: &Statement<'tcx>) -> Option<J> {
        match &st.kind {
            StatementKind::Assign(b) => {
                let (p, rv) = &**b;
                Some(
                    J::obj()
                        .set("k", J::s("assign"))
                        .set("place", self.place(p))
                        .set("rv", self.rvalue(rv))
                        .set("span", span_j(self.tcx, st.source_info.span)),
                )
            }
            StatementKind::SetDiscriminant { place, variant_index } => Some(
                J::obj()
                    .set("k", J::s("setdiscr"))
                    .set("place", self.place(place))
                    .set("vidx", J::Int(variant_index.as_usize() as i128))
                    .set("span", span_j(self.tcx, st.source_info.span)),
            ),
            StatementKind::Intrinsic(i) => Some(
                J::obj()
                    .set("k", J::s("intrinsic"))
                    .set("dbg", J::s(format!("{:?}", i)))
                    .set("span", span_j(self.tcx, st.source_info.span)),
            ),
            _ => None,
        }
    }

    fn term(&self, t: &Terminator<'tcx>) -> J {
        let tcx = self.tcx;
        let sp = span_j(tcx, t.source_info.span);
        let o = match &t.kind {
            TerminatorKind::Goto { target } => {
                J::obj().set("k", J::s("goto")).set("target", J::Int(target.as_usize() as i128))
            }
            TerminatorKind::SwitchInt { discr, targets } => {
                let mut ts = Vec::new();
                for (v, bb) in targets.iter() {
                    ts.push(J::Arr(vec![J::s(format!("{}", v)), J::Int(bb.as_usize() as i128)]));
                }
                J::obj()
                    .set("k", J::s("switch"))
                    .set("discr", self.operand(discr))
                    .set("dty", ty_s(discr.ty(&self.body.local_decls, tcx)))
                    .set("targets", J::Arr(ts))
                    .set("otherwise", J::Int(targets.otherwise().as_usize() as i128))
            }
            TerminatorKind::Return => J::obj().set("k", J::s("return")),
            TerminatorKind::Unreachable => J::obj().set("k", J::s("unreachable")),
            TerminatorKind::UnwindResume => J::obj().set("k", J::s("resume")),
            TerminatorKind::UnwindTerminate(_) => J::obj().set("k", J::s("terminate")),
            TerminatorKind::Drop { place, target, unwind, .. } => {
                let pty = place.ty(&self.body.local_decls, tcx).ty;
                J::obj()
                    .set("k", J::s("drop"))
                    .set("place", self.place(place))
                    .set("ty", ty_s(pty))
                    .set("adt", adt_path_of(tcx, pty).map(J::s).unwrap_or(J::Null))
                    .set("target", J::Int(target.as_usize() as i128))
                    .set("unwind", unwind_j(unwind))
            }
            TerminatorKind::Call { func, args, destination, target, unwind, fn_span, .. } => {
                let mut o = J::obj().set("k", J::s("call"));
                o.put("func", self.operand(func));
                o.put("args", J::Arr(args.iter().map(|a| self.operand(&a.node)).collect()));
                o.put(
                    "arg_tys",
                    J::Arr(
                        args.iter()
                            .map(|a| ty_s(a.node.ty(&self.body.local_decls, tcx)))
                            .collect(),
                    ),
                );
                o.put("dest", self.place(destination));
                o.put(
                    "target",
                    target.map(|b| J::Int(b.as_usize() as i128)).unwrap_or(J::Null),
                );
                o.put("unwind", unwind_j(unwind));
                o.put("fn_span", span_j(tcx, *fn_span));
                o
            }
            TerminatorKind::Assert { cond, expected, msg, target, unwind } => {
                let (kind, detail) = assert_kind(msg);
                J::obj()
                    .set("k", J::s("assert"))
                    .set("cond", self.operand(cond))
                    .set("expected", J::Bool(*expected))
                    .set("kind", J::s(kind))
                    .set("detail", J::s(detail))
                    .set("target", J::Int(target.as_usize() as i128))
                    .set("unwind", unwind_j(unwind))
            }
            other => J::obj().set("k", J::s("other")).set("dbg", J::s(format!("{:?}", other))),
        };
        o.set("span", sp)
    }
}

fn unwind_j(u: &UnwindAction) -> J {
    match u {
        UnwindAction::Cleanup(bb) => J::Int(bb.as_usize() as i128),
        _ => J::Null,
    }
}

fn inst_kind<'tcx>(d: &ty::InstanceKind<'tcx>) -> String {
    let s = format!("{:?}", d);
    s.split('(').next().unwrap_or("").to_string()
}

fn assert_kind<'tcx>(msg: &AssertKind<Operand<'tcx>>) -> (String, String) {
    let k = match msg {
        AssertKind::BoundsCheck { .. } => "bounds".to_string(),
        AssertKind::Overflow(op, _, _) => format!("overflow:{:?}", op),
        AssertKind::OverflowNeg(_) => "overflow:Neg".to_string(),
        AssertKind::DivisionByZero(_) => "div0".to_string(),
        AssertKind::RemainderByZero(_) => "rem0".to_string(),
        other => {
            let s = format!("{:?}", other);
            s.split(|c| c == '(' || c == '{' || c == ' ').next().unwrap_or("other").to_string()
        }
    };
    (k, format!("{:?}", msg))
}
