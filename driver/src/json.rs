// Minimal JSON value + writer (the driver has zero cargo dependencies).
use std::fmt::Write;

#[derive(Clone, Debug)]
pub enum J {
    Null,
    Bool(bool),
    Int(i128),
    Str(String),
    Arr(Vec<J>),
    Obj(Vec<(String, J)>),
}

impl J {
    pub fn s<T: Into<String>>(t: T) -> J {
        J::Str(t.into())
    }
    pub fn obj() -> J {
        J::Obj(Vec::new())
    }
    pub fn set<T: Into<String>>(mut self, k: T, v: J) -> J {
        if let J::Obj(ref mut m) = self {
            m.push((k.into(), v));
        }
        self
    }
    pub fn put<T: Into<String>>(&mut self, k: T, v: J) {
        if let J::Obj(ref mut m) = self {
            m.push((k.into(), v));
        }
    }
    pub fn write(&self, out: &mut String) {
        match self {
            J::Null => out.push_str("null"),
            J::Bool(b) => out.push_str(if *b { "true" } else { "false" }),
            J::Int(i) => {
                let _ = write!(out, "{}", i);
            }
            J::Str(s) => write_str(s, out),
            J::Arr(v) => {
                out.push('[');
                for (i, x) in v.iter().enumerate() {
                    if i > 0 {
                        out.push(',');
                    }
                    x.write(out);
                }
                out.push(']');
            }
            J::Obj(m) => {
                out.push('{');
                for (i, (k, x)) in m.iter().enumerate() {
                    if i > 0 {
                        out.push(',');
                    }
                    write_str(k, out);
                    out.push(':');
                    x.write(out);
                }
                out.push('}');
            }
        }
    }
}

fn write_str(s: &str, out: &mut String) {
    out.push('"');
    for c in s.chars() {
        match c {
            '"' => out.push_str("\\\""),
            '\\' => out.push_str("\\\\"),
            '\n' => out.push_str("\\n"),
            '\r' => out.push_str("\\r"),
            '\t' => out.push_str("\\t"),
            c if (c as u32) < 0x20 => {
                let _ = write!(out, "\\u{:04x}", c as u32);
            }
            c => out.push(c),
        }
    }
    out.push('"');
}
