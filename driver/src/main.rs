// frost-facts: rustc_private driver that dumps the type-checked program of a
// workspace crate (items, ADTs, impls, MIR bodies with resolved callees) as one
// JSON file per crate.  It is injected with RUSTC_WORKSPACE_WRAPPER and never
// runs any analysed code.  One write per process.
#![feature(rustc_private)]
#![allow(clippy::all)]

extern crate rustc_abi;
extern crate rustc_ast;
extern crate rustc_driver;
extern crate rustc_hir;
extern crate rustc_interface;
extern crate rustc_middle;
extern crate rustc_session;
extern crate rustc_span;

mod json;
mod dump;

use rustc_driver::Compilation;
use rustc_interface::interface::Compiler;
use rustc_middle::ty::TyCtxt;

struct Cb {
    out_dir: Option<String>,
}

impl rustc_driver::Callbacks for Cb {
    fn after_analysis<'tcx>(&mut self, _c: &Compiler, tcx: TyCtxt<'tcx>) -> Compilation {
        if let Some(dir) = &self.out_dir {
            dump::dump_crate(tcx, dir);
        }
        Compilation::Continue
    }
}

fn main() {
    let mut args: Vec<String> = std::env::args().collect();
    // RUSTC_WORKSPACE_WRAPPER: argv = [wrapper, rustc, args...]
    if args.len() > 1 && (args[1].ends_with("rustc") || args[1].contains("/rustc")) {
        args.remove(1);
    }
    let out_dir = std::env::var("FROST_FACTS_DIR").ok();
    // skip build scripts and probe invocations
    let is_probe = args.iter().any(|a| a == "-vV" || a == "--print" || a.starts_with("--print="))
        || !args.iter().any(|a| a.ends_with(".rs"));
    let crate_name = args
        .iter()
        .position(|a| a == "--crate-name")
        .and_then(|i| args.get(i + 1))
        .cloned()
        .unwrap_or_default();
    let skip = is_probe || crate_name.starts_with("build_script");
    let mut cb = Cb { out_dir: if skip { None } else { out_dir } };
    rustc_driver::catch_with_exit_code(move || {
        rustc_driver::run_compiler(&args, &mut cb);
    });
}
